//go:build verif

package processor

import (
	charging_datatype "github.com/free5gc/chf/ccs_diameter/datatype"
	chf_context "github.com/free5gc/chf/internal/context"
)

// VerifGetUnitCost exposes the CHF-side tariff decoding to the verification harness.
func VerifGetUnitCost(ue *chf_context.ChfUe, rg int32, sur *charging_datatype.ServiceUsageRequest) uint32 {
	return getUnitCost(ue, rg, sur)
}
