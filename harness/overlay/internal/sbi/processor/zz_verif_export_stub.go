//go:build verif && verif_nounitcost

package processor

import (
	charging_datatype "github.com/free5gc/chf/ccs_diameter/datatype"
	chf_context "github.com/free5gc/chf/internal/context"
)

// VerifGetUnitCost, stand-in used when the tree's tariff decoding helper no longer has the signature
// getUnitCost(ue, rg, sur) uint32 (the harness is then built with -tags verif,verif_nounitcost): not available.
func VerifGetUnitCost(ue *chf_context.ChfUe, rg int32, sur *charging_datatype.ServiceUsageRequest) (uint32, bool) {
	return 0, false
}
