//go:build verif

package sbi

import "github.com/gin-gonic/gin"

// VerifNewRouter exposes the unexported router constructor to the verification harness.
func VerifNewRouter(chf ServerChf) *gin.Engine {
	return newRouter(&Server{ServerChf: chf})
}
