//go:build verif

package sbi

import (
	"sync"

	"github.com/gin-gonic/gin"
)

// VerifNewRouter exposes the unexported router constructor to the verification harness.
func VerifNewRouter(chf ServerChf) *gin.Engine {
	return newRouter(&Server{ServerChf: chf})
}

// VerifStartServer runs the SBI listener the way Server.Run does, without the NRF registration.
func VerifStartServer(s *Server, wg *sync.WaitGroup) {
	wg.Add(1)
	go s.startServer(wg)
}
