// vfh: verification harness binary (built only in a scratch copy of the repository).
package main

import (
	"fmt"
	"os"

	vh "github.com/free5gc/chf/internal/verifharness"
)

func die(err error) {
	if err != nil {
		fmt.Fprintln(os.Stderr, "vfh:", err)
		os.Exit(3)
	}
}

func main() {
	if len(os.Args) < 2 {
		die(fmt.Errorf("usage: vfh <mode> args"))
	}
	mode := os.Args[1]
	a := os.Args[2:]
	if fn, ok := vh.Modes[mode]; ok {
		die(fn(a))
		return
	}
	die(fmt.Errorf("unknown mode %q", mode))
}
