package verifharness

// Driver for C13: for every service list, the router built by the real newRouter with OAuth2 required is
// probed on EVERY route it registered (Engine.Routes()) with every unauthenticated token kind; the status,
// the shape of the body and any processing side effect are recorded.

import (
	"syscall"
	"context"
	"bufio"
	"bytes"
	"crypto/rand"
	"crypto/rsa"
	"crypto/x509"
	"crypto/x509/pkix"
	"encoding/json"
	"encoding/pem"
	"fmt"
	"math/big"
	"net/http"
	"net/http/httptest"
	"os"
	"path/filepath"
	"sort"
	"strings"
	"sync"
	"time"

	"github.com/golang-jwt/jwt/v5"

	chf_context "github.com/free5gc/chf/internal/context"
	"github.com/free5gc/chf/internal/sbi"
	"github.com/free5gc/chf/pkg/factory"
	"github.com/free5gc/openapi/models"
)

type RouterCase struct {
	ID       string              `json:"id"`
	Services []string            `json:"services"`
	Routes   []map[string]string `json:"routes"`
}

func rsaCert(dir, name string) (*rsa.PrivateKey, string) {
	key, _ := rsa.GenerateKey(rand.Reader, 2048)
	tmpl := x509.Certificate{
		SerialNumber: big.NewInt(2), Subject: pkix.Name{CommonName: name},
		NotBefore: time.Now().Add(-time.Hour), NotAfter: time.Now().Add(48 * time.Hour),
	}
	der, _ := x509.CreateCertificate(rand.Reader, &tmpl, &tmpl, &key.PublicKey, key)
	p := filepath.Join(dir, name+".pem")
	_ = os.WriteFile(p, pem.EncodeToMemory(&pem.Block{Type: "CERTIFICATE", Bytes: der}), 0o600)
	return key, p
}

func RunRouter(env *Env, prefix, in, out string) error {
	raw, err := os.ReadFile(in)
	if err != nil {
		return err
	}
	var cases []RouterCase
	if err = json.Unmarshal(raw, &cases); err != nil {
		return err
	}
	f, err := os.Create(out)
	if err != nil {
		return err
	}
	defer f.Close()
	w := bufio.NewWriterSize(f, 1<<20)
	defer w.Flush()
	emit := func(v any) {
		b, _ := json.Marshal(v)
		_, _ = w.Write(b)
		_ = w.WriteByte('\n')
	}
	nrfKey, nrfPem := rsaCert(env.Dir, "nrf")
	foreignKey, _ := rsaCert(env.Dir, "foreign")
	self := chf_context.GetSelf()
	supi := "imsi-" + prefix + "1"
	sign := func(method jwt.SigningMethod, key any, scope string) string {
		claims := models.NrfAccessTokenAccessTokenClaims{
			Iss: "nrf", Sub: "smf", Aud: "chf", Scope: scope, Exp: int32(time.Now().Add(time.Hour).Unix()),
		}
		t := jwt.NewWithClaims(method, claims)
		s, err := t.SignedString(key)
		if err != nil {
			panic(err)
		}
		return s
	}
	allScopes := "nchf-convergedcharging nchf-offlineonlycharging nchf-spendinglimitcontrol"
	// forged tokens whose claims carry an expiry of their own (past, far future, zero): the claims of a token that does not
	// verify say nothing
	signExp := func(method jwt.SigningMethod, key any, exp int64) string {
		claims := jwt.MapClaims{"iss": "nrf", "sub": "smf", "aud": "chf", "scope": allScopes, "exp": exp}
		t := jwt.NewWithClaims(method, claims)
		s, err := t.SignedString(key)
		if err != nil {
			panic(err)
		}
		return s
	}
	past, future := time.Now().Add(-time.Hour).Unix(), time.Now().Add(24*time.Hour).Unix()
	cutSig := func(tok string, sig string) string { return tok[:strings.LastIndex(tok, ".")+1] + sig }
	tokens := map[string]string{
		"hs256_past":    "Bearer " + signExp(jwt.SigningMethodHS256, []byte("secret"), past),
		"foreign_past":  "Bearer " + signExp(jwt.SigningMethodRS512, foreignKey, past),
		"foreign_zero":  "Bearer " + signExp(jwt.SigningMethodRS512, foreignKey, 0),
		"nosig_past":    "Bearer " + cutSig(signExp(jwt.SigningMethodRS512, foreignKey, past), ""),
		"badsig_past":   "Bearer " + cutSig(signExp(jwt.SigningMethodRS512, nrfKey, past), "AAAA"),
		"badsig_future": "Bearer " + cutSig(signExp(jwt.SigningMethodRS512, nrfKey, future), "AAAA"),
		"absent":     "",
		"garbage":    "garbage",
		"malformed":  "Bearer abc.def.ghi",
		"hs256":      "Bearer " + sign(jwt.SigningMethodHS256, []byte("secret"), allScopes),
		"foreignkey": "Bearer " + sign(jwt.SigningMethodRS512, foreignKey, allScopes),
		"rs256":      "Bearer " + sign(jwt.SigningMethodRS256, nrfKey, allScopes),
		"noscope":    "Bearer " + sign(jwt.SigningMethodRS512, nrfKey, "nudm-sdm"),
		"valid":      "Bearer " + sign(jwt.SigningMethodRS512, nrfKey, allScopes),
	}
	// ("noscope" -- signed by the NRF key but without this service in scope -- is outside C13's statement and is
	// accepted by the openapi dependency's VerifyOAuth; it is not probed)
	kinds := []string{"absent", "garbage", "malformed", "hs256", "foreignkey", "rs256", "hs256_past", "foreign_past", "foreign_zero",
		"nosig_past", "badsig_past", "badsig_future", "valid"}
	seq := 0
	caseNo := 0
	nrfKey2, nrfPem2 := rsaCert(env.Dir, "nrf2")
	tokens["retired"] = "Bearer " + sign(jwt.SigningMethodRS512, nrfKey, allScopes)
	tokens["valid2"] = "Bearer " + sign(jwt.SigningMethodRS512, nrfKey2, allScopes)
	for _, c := range cases {
		// a subscriber with one session in debit mode, prepared with authentication off
		self.OAuth2Required = false
		env.ResetState(0)
		env.PutAccount(supi, 1, "3", "1")
		d := &SeqDriver{Env: env, Prefix: prefix}
		_ = d
		body := fmt.Sprintf(`{"subscriberIdentifier":%q,"nfConsumerIdentification":{"nFName":"smf","nodeFunctionality":"SMF"},"invocationSequenceNumber":1,"notifyUri":"%s/n","chargingId":3}`, supi, env.SinkURL)
		hr := env.Do("POST", "/nchf-convergedcharging/v3/chargingdata", []byte(body), nil, 10*time.Second)
		ref := "x"
		pref := self.Url + "/nchf-convergedcharging/v3/chargingdata/"
		if strings.HasPrefix(hr.Location, pref) {
			ref = hr.Location[len(pref):]
		}
		upd := fmt.Sprintf(`{"subscriberIdentifier":%q,"invocationSequenceNumber":2,"multipleUnitUsage":[{"ratingGroup":1,"requestedUnit":{"totalVolume":10},"usedUnitContainer":[{"quotaManagementIndicator":"ONLINE_CHARGING","totalVolume":0,"localSequenceNumber":1}]}]}`, supi)
		_ = env.Do("POST", "/nchf-convergedcharging/v3/chargingdata/"+ref+"/update", []byte(upd), nil, 20*time.Second)
		env.TakeNotifs()

		cfg := *factory.ChfConfig
		conf := *factory.ChfConfig.Configuration
		conf.ServiceNameList = c.Services
		cfg.Configuration = &conf
		router := sbi.VerifNewRouter(&stubApp{cfg: &cfg, proc: env.Proc})
		// the certificate path comes from the configuration through the context's own initialisation; for every second
		// service list it is a symbolic link (certificates are commonly rolled over by re-pointing one)
		caseNo++
		certPath := filepath.Join(env.Dir, fmt.Sprintf("nrfcert-%d.pem", caseNo))
		_ = os.Remove(certPath)
		viaLink := caseNo%2 == 0
		if viaLink {
			_ = os.Symlink(nrfPem, certPath)
		} else {
			raw, _ := os.ReadFile(nrfPem)
			_ = os.WriteFile(certPath, raw, 0o600)
		}
		factory.ChfConfig.Configuration.NrfCertPem = certPath
		chf_context.InitChfContext(self)
		self.OAuth2Required = true

		var real []map[string]string
		for _, ri := range router.Routes() {
			real = append(real, map[string]string{"method": ri.Method, "path": ri.Path})
		}
		sort.Slice(real, func(i, j int) bool { return real[i]["path"]+real[i]["method"] < real[j]["path"]+real[j]["method"] })
		seq++
		if real == nil {
			real = []map[string]string{}
		}
		if c.Routes == nil {
			c.Routes = []map[string]string{}
		}
		emit(map[string]any{"trace": c.ID, "seq": seq, "action": "routes", "services": c.Services, "routes": real, "model_routes": c.Routes})

		snapshot := func() string {
			n := 0
			self.UePool.Range(func(_, _ any) bool { n++; return true })
			s := fmt.Sprintf("pool=%d", n)
			if ue, ok := self.ChfUeFindBySupi(supi); ok {
				s += fmt.Sprintf(" rtype=%v reserved=%v recs=%d cdr=%d reqnum=%v", ue.RatingType, ue.ReservedQuota, len(ue.Records), len(ue.Cdr), ue.AcctRequestNum)
				for _, r := range ue.Records {
					s += fmt.Sprintf(" %d", len(r.ChargingFunctionRecord.ListOfMultipleUnitUsage))
				}
			}
			q, _, _ := env.GetAccount(supi, 1)
			return s + " quota=" + q + fmt.Sprintf(" lrsn=%d", self.LocalRecordSequenceNumber)
		}
		for _, ri := range router.Routes() {
			path := ri.Path
			path = strings.ReplaceAll(path, ":ChargingDataRef", ref)
			path = strings.ReplaceAll(path, ":rechargingInfo", supi+"_1")
			path = strings.ReplaceAll(path, ":OfflineChargingDataRef", "x")
			path = strings.ReplaceAll(path, ":subscriptionId", "x")
			for _, k := range kinds {
				before := snapshot()
				rec := httptest.NewRecorder()
				var rb []byte
				if ri.Method == "POST" || ri.Method == "PUT" {
					rb = []byte(upd)
				}
				req := httptest.NewRequest(ri.Method, path, bytes.NewReader(rb))
				req.Header.Set("Content-Type", "application/json")
				if tokens[k] != "" {
					req.Header.Set("Authorization", tokens[k])
				}
				done := make(chan struct{})
				go func() { defer close(done); router.ServeHTTP(rec, req) }()
				status := -1
				select {
				case <-done:
					status = rec.Code
				case <-time.After(20 * time.Second):
				}
				time.Sleep(0)
				effects := []string{}
				if k != "valid" {
					after := snapshot()
					if after != before {
						effects = append(effects, "state")
					}
					if len(env.TakeNotifs()) > 0 {
						effects = append(effects, "notification")
					}
				} else {
					// undo whatever the authorised request did, so that later probes start from the same state
					self.OAuth2Required = false
					env.TakeNotifs()
					self.OAuth2Required = true
				}
				// exactly one JSON document in the body (a handler that still runs appends its own output)
				dec := json.NewDecoder(bytes.NewReader(rec.Body.Bytes()))
				var v any
				oneJSON := dec.Decode(&v) == nil
				if oneJSON {
					var v2 any
					if err := dec.Decode(&v2); err == nil {
						oneJSON = false
					} else if rest, _ := readAll(dec); len(bytes.TrimSpace(rest)) > 0 {
						oneJSON = false
					}
				}
				seq++
				emit(map[string]any{
					"trace": c.ID, "seq": seq, "action": "probe", "method": ri.Method, "route": ri.Path, "tok": k,
					"status": status, "oneJson": oneJSON, "effects": effects,
				})
			}
		}
		// the same unacceptable credential presented by many requests at the same moment (a verification result that is
		// remembered or shared between requests must not open the door to the ones that arrive meanwhile)
		for _, ri := range router.Routes() {
			path := ri.Path
			path = strings.ReplaceAll(path, ":ChargingDataRef", ref)
			path = strings.ReplaceAll(path, ":rechargingInfo", supi+"_1")
			path = strings.ReplaceAll(path, ":OfflineChargingDataRef", "x")
			path = strings.ReplaceAll(path, ":subscriptionId", "x")
			for _, k := range []string{"absent", "garbage", "foreignkey"} {
				const n = 16
				before := snapshot()
				recs := make([]*httptest.ResponseRecorder, n)
				start := make(chan struct{})
				var wg sync.WaitGroup
				for i := 0; i < n; i++ {
					recs[i] = httptest.NewRecorder()
					var rb []byte
					if ri.Method == "POST" || ri.Method == "PUT" {
						rb = []byte(upd)
					}
					req := httptest.NewRequest(ri.Method, path, bytes.NewReader(rb))
					req.Header.Set("Content-Type", "application/json")
					if tokens[k] != "" {
						req.Header.Set("Authorization", tokens[k])
					}
					wg.Add(1)
					go func(rec *httptest.ResponseRecorder, req *http.Request) {
						defer wg.Done()
						<-start
						router.ServeHTTP(rec, req)
					}(recs[i], req)
				}
				close(start)
				fin := make(chan struct{})
				go func() { wg.Wait(); close(fin) }()
				status, oneJSON := 401, true
				select {
				case <-fin:
					for _, rec := range recs {
						if rec.Code != 401 {
							status = rec.Code
						}
						dec := json.NewDecoder(bytes.NewReader(rec.Body.Bytes()))
						var v, v2 any
						if dec.Decode(&v) != nil || dec.Decode(&v2) == nil {
							oneJSON = false
						}
					}
				case <-time.After(30 * time.Second):
					status = -1
				}
				effects := []string{}
				if snapshot() != before {
					effects = append(effects, "state")
				}
				if len(env.TakeNotifs()) > 0 {
					effects = append(effects, "notification")
				}
				seq++
				emit(map[string]any{
					"trace": c.ID, "seq": seq, "action": "probe", "method": ri.Method, "route": ri.Path, "tok": k, "burst": n,
					"status": status, "oneJson": oneJSON, "effects": effects,
				})
			}
		}
		// non-canonical spellings of every registered resource (doubled slash, dot segments, trailing slash, letter case):
		// whatever the router makes of them, a request without an acceptable token is not served
		for _, ri := range router.Routes() {
			path := ri.Path
			path = strings.ReplaceAll(path, ":ChargingDataRef", ref)
			path = strings.ReplaceAll(path, ":rechargingInfo", supi+"_1")
			path = strings.ReplaceAll(path, ":OfflineChargingDataRef", "x")
			path = strings.ReplaceAll(path, ":subscriptionId", "x")
			second := strings.Index(path[1:], "/") + 1 // the slash after the service name
			if second <= 0 {
				continue
			}
			spellings := [][2]string{
				{"lead2", "/" + path},
				{"mid2", path[:second] + "/" + path[second:]},
				{"dot", path[:second] + "/." + path[second:]},
				{"leaddot", "/." + path},
				{"dotdot", "/x/.." + path},
				{"trail", path + "/"},
				{"upper", strings.ToUpper(path[:second]) + path[second:]},
				{"last2", path[:strings.LastIndex(path, "/")] + "/" + path[strings.LastIndex(path, "/"):]},
			}
			for _, sp := range spellings {
				for _, k := range []string{"absent", "garbage", "foreignkey"} {
					before := snapshot()
					rec := httptest.NewRecorder()
					var rb []byte
					if ri.Method == "POST" || ri.Method == "PUT" {
						rb = []byte(upd)
					}
					req := httptest.NewRequest(ri.Method, "http://chf.example"+sp[1], bytes.NewReader(rb))
					req.Header.Set("Content-Type", "application/json")
					if tokens[k] != "" {
						req.Header.Set("Authorization", tokens[k])
					}
					done := make(chan struct{})
					go func() { defer close(done); router.ServeHTTP(rec, req) }()
					status := -1
					select {
					case <-done:
						status = rec.Code
					case <-time.After(20 * time.Second):
					}
					effects := []string{}
					if snapshot() != before {
						effects = append(effects, "state")
					}
					if len(env.TakeNotifs()) > 0 {
						effects = append(effects, "notification")
					}
					seq++
					emit(map[string]any{
						"trace": c.ID, "seq": seq, "action": "spell", "method": ri.Method, "route": ri.Path, "tok": k, "spelling": sp[0],
						"status": status, "effects": effects,
					})
				}
			}
		}
		// the NRF's key is rolled over: the configured path now holds another certificate (the link re-pointed, or the file
		// replaced in place).  A token signed with the retired key is no longer a credential; one signed with the key in
		// force is (vacuity guard: the roll-over has taken effect)
		if viaLink {
			tmp := certPath + ".new"
			_ = os.Remove(tmp)
			_ = os.Symlink(nrfPem2, tmp)
			_ = os.Rename(tmp, certPath)
		} else {
			raw, _ := os.ReadFile(nrfPem2)
			_ = os.WriteFile(certPath, raw, 0o600)
		}
		for _, ri := range router.Routes() {
			path := ri.Path
			path = strings.ReplaceAll(path, ":ChargingDataRef", ref)
			path = strings.ReplaceAll(path, ":rechargingInfo", supi+"_1")
			path = strings.ReplaceAll(path, ":OfflineChargingDataRef", "x")
			path = strings.ReplaceAll(path, ":subscriptionId", "x")
			for _, k := range []string{"retired", "valid2"} {
				before := snapshot()
				rec := httptest.NewRecorder()
				var rb []byte
				if ri.Method == "POST" || ri.Method == "PUT" {
					rb = []byte(upd)
				}
				req := httptest.NewRequest(ri.Method, path, bytes.NewReader(rb))
				req.Header.Set("Content-Type", "application/json")
				req.Header.Set("Authorization", tokens[k])
				done := make(chan struct{})
				go func() { defer close(done); router.ServeHTTP(rec, req) }()
				status := -1
				select {
				case <-done:
					status = rec.Code
				case <-time.After(20 * time.Second):
				}
				effects := []string{}
				tok := "valid"
				if k == "retired" {
					tok = "retired"
					if snapshot() != before {
						effects = append(effects, "state")
					}
					if len(env.TakeNotifs()) > 0 {
						effects = append(effects, "notification")
					}
				} else {
					self.OAuth2Required = false
					env.TakeNotifs()
					self.OAuth2Required = true
				}
				dec := json.NewDecoder(bytes.NewReader(rec.Body.Bytes()))
				var v, v2 any
				oneJSON := dec.Decode(&v) == nil && dec.Decode(&v2) != nil
				seq++
				emit(map[string]any{
					"trace": c.ID, "seq": seq, "action": "probe", "method": ri.Method, "route": ri.Path, "tok": tok, "rolled": true,
					"link": viaLink, "status": status, "oneJson": oneJSON || k != "retired", "effects": effects,
				})
			}
		}
		// a consumer that gives up (its connection is reset) while its token is being checked: the certificate path is a named
		// pipe, so the harness decides how long reading the certificate takes.  The request's context is cancelled while the
		// check waits for the certificate, the certificate is delivered afterwards.  Whatever the sender did, a request
		// without an acceptable token is not processed
		fifo := filepath.Join(env.Dir, fmt.Sprintf("nrfcert-fifo-%d", caseNo))
		_ = os.Remove(fifo)
		if syscall.Mkfifo(fifo, 0o600) == nil {
			factory.ChfConfig.Configuration.NrfCertPem = fifo
			chf_context.InitChfContext(self)
			self.OAuth2Required = true
			pemBytes, _ := os.ReadFile(nrfPem2)
			feed := func(wait time.Duration) bool { // hand the certificate to a reader of the pipe, if one turns up
				deadline := time.Now().Add(wait)
				for time.Now().Before(deadline) {
					fd, err := syscall.Open(fifo, syscall.O_WRONLY|syscall.O_NONBLOCK, 0)
					if err == nil {
						f := os.NewFile(uintptr(fd), fifo)
						_ = syscall.SetNonblock(fd, false)
						_, _ = f.Write(pemBytes)
						_ = f.Close()
						return true
					}
					time.Sleep(5 * time.Millisecond)
				}
				return false
			}
			for _, ri := range router.Routes() {
				path := ri.Path
				path = strings.ReplaceAll(path, ":ChargingDataRef", ref)
				path = strings.ReplaceAll(path, ":rechargingInfo", supi+"_1")
				path = strings.ReplaceAll(path, ":OfflineChargingDataRef", "x")
				path = strings.ReplaceAll(path, ":subscriptionId", "x")
				for _, k := range []string{"foreignkey", "hs256"} {
					before := snapshot()
					rec := httptest.NewRecorder()
					var rb []byte
					if ri.Method == "POST" || ri.Method == "PUT" {
						rb = []byte(upd)
					}
					ctx, cancel := context.WithCancel(context.Background())
					req := httptest.NewRequest(ri.Method, path, bytes.NewReader(rb)).WithContext(ctx)
					req.Header.Set("Content-Type", "application/json")
					req.Header.Set("Authorization", tokens[k])
					done := make(chan struct{})
					go func() { defer close(done); router.ServeHTTP(rec, req) }()
					// wait until the check is reading the certificate (a writer can open the pipe), then the sender goes away
					time.Sleep(30 * time.Millisecond)
					cancel()
					time.Sleep(60 * time.Millisecond)
					fed := feed(300 * time.Millisecond)
					status := -1
					select {
					case <-done:
						status = rec.Code
					case <-time.After(10 * time.Second):
						feed(200 * time.Millisecond)
					}
					effects := []string{}
					if snapshot() != before {
						effects = append(effects, "state")
					}
					if len(env.TakeNotifs()) > 0 {
						effects = append(effects, "notification")
					}
					seq++
					emit(map[string]any{
						"trace": c.ID, "seq": seq, "action": "probe", "method": ri.Method, "route": ri.Path, "tok": k, "gaveup": true, "fed": fed,
						"status": status, "oneJson": true, "effects": effects,
					})
				}
			}
			_ = os.Remove(fifo)
		}
		self.OAuth2Required = false
	}
	return nil
}

func readAll(dec *json.Decoder) ([]byte, error) {
	var buf bytes.Buffer
	_, err := buf.ReadFrom(dec.Buffered())
	return buf.Bytes(), err
}
