package verifharness

// Driver for the NRF-registration premise of C13: a scripted fake NRF answers the real
// consumer.RegisterNFInstance (through the real sbi.Server.Run); afterwards an unauthenticated request is
// sent to the SBI listener over real HTTP/2 cleartext.

import (
	"bufio"
	"context"
	"crypto/tls"
	"encoding/json"
	"fmt"
	"net"
	"net/http"
	"os"
	"sync"
	"time"

	"golang.org/x/net/http2"
	"golang.org/x/net/http2/h2c"

	chf_context "github.com/free5gc/chf/internal/context"
	"github.com/free5gc/chf/internal/sbi"
	"github.com/free5gc/chf/internal/sbi/consumer"
	"github.com/free5gc/chf/internal/sbi/processor"
	"github.com/free5gc/chf/pkg/factory"
)

type NrfCase struct {
	ID     string   `json:"id"`
	Script []string `json:"script"`
}

type stubApp2 struct {
	stubApp
	cons *consumer.Consumer
}

func (s *stubApp2) Consumer() *consumer.Consumer { return s.cons }

func RunNrf(prefix, in, out string) error {
	raw, err := os.ReadFile(in)
	if err != nil {
		return err
	}
	var cases []NrfCase
	if err = json.Unmarshal(raw, &cases); err != nil {
		return err
	}
	f, err := os.Create(out)
	if err != nil {
		return err
	}
	defer f.Close()
	w := bufio.NewWriterSize(f, 1<<16)
	defer w.Flush()
	Quiet()
	for ci, c := range cases {
		var mu sync.Mutex
		step := 0
		ln, err := net.Listen("tcp", "127.0.0.1:0")
		if err != nil {
			return err
		}
		nrfURL := "http://" + ln.Addr().String()
		h := http.HandlerFunc(func(wr http.ResponseWriter, r *http.Request) {
			mu.Lock()
			a := "500"
			if step < len(c.Script) {
				a = c.Script[step]
			}
			step++
			mu.Unlock()
			profile := map[string]any{"nfInstanceId": "x", "nfType": "CHF", "nfStatus": "REGISTERED"}
			switch a {
			case "neterr":
				if hj, ok := wr.(http.Hijacker); ok {
					if conn, _, err := hj.Hijack(); err == nil {
						conn.Close()
						return
					}
				}
				panic(http.ErrAbortHandler)
			case "200", "200t", "200f":
				// (profile replaced: no Location; the returned profile may carry the NRF's OAuth2 setting as well)
				if a != "200" {
					profile["customInfo"] = map[string]any{"oauth2": a == "200t"}
				}
				wr.Header().Set("Content-Type", "application/json")
				wr.WriteHeader(200)
				_ = json.NewEncoder(wr).Encode(profile)
			case "201t", "201f":
				profile["customInfo"] = map[string]any{"oauth2": a == "201t"}
				wr.Header().Set("Content-Type", "application/json")
				wr.Header().Set("Location", nrfURL+"/nnrf-nfm/v1/nf-instances/assigned-by-nrf")
				wr.WriteHeader(201)
				_ = json.NewEncoder(wr).Encode(profile)
			default:
				wr.Header().Set("Content-Type", "application/problem+json")
				wr.WriteHeader(500)
				_, _ = wr.Write([]byte(`{"status":500}`))
			}
		})
		srvNrf := &http.Server{Handler: h2c.NewHandler(h, &http2.Server{}), ReadHeaderTimeout: 5 * time.Second}
		go func() { _ = srvNrf.Serve(ln) }()

		sbiPort := FreePort()
		cfg := BaseConfig("mongodb://127.0.0.1:1", "", "", 1, 2, nil)
		cfg.Configuration.NrfUri = nrfURL
		cfg.Configuration.Sbi.Port = sbiPort
		factory.ChfConfig = cfg
		chf_context.Init()
		self := chf_context.GetSelf()
		self.OAuth2Required = false
		own := self.NfId
		proc, _ := processor.NewProcessor(nil)
		app := &stubApp2{stubApp: stubApp{cfg: cfg, proc: proc}}
		app.cons, _ = consumer.NewConsumer(app)
		rec := map[string]any{"trace": c.ID, "seq": ci, "action": "nrf", "script": c.Script, "returned": false, "attempts": 0,
			"oauth": false, "nfIdKind": "", "probe": -1, "err": ""}
		server, err := sbi.NewServer(app, "")
		if err != nil {
			rec["err"] = err.Error()
		} else {
			var wg sync.WaitGroup
			done := make(chan struct{})
			go func() {
				defer close(done)
				defer func() {
					if p := recover(); p != nil {
						rec["err"] = fmt.Sprint("panic: ", p)
					}
				}()
				_ = server.Run(context.Background(), &wg)
			}()
			select {
			case <-done:
				rec["returned"] = true
			case <-time.After(time.Duration(2500*len(c.Script)+6000) * time.Millisecond):
			}
			mu.Lock()
			rec["attempts"] = step
			mu.Unlock()
			rec["oauth"] = self.OAuth2Required
			switch self.NfId {
			case "":
				rec["nfIdKind"] = "empty"
			case own:
				rec["nfIdKind"] = "own"
			case "assigned-by-nrf":
				rec["nfIdKind"] = "fromLocation"
			default:
				rec["nfIdKind"] = "other"
			}
			if rec["returned"] == true && WaitPort(sbiPort, 3*time.Second) {
				tr := &http2.Transport{AllowHTTP: true, DialTLSContext: func(ctx context.Context, network, addr string, _ *tls.Config) (net.Conn, error) {
					return net.Dial(network, addr)
				}}
				cl := &http.Client{Transport: tr, Timeout: 5 * time.Second}
				resp, err := cl.Get(fmt.Sprintf("http://127.0.0.1:%d/nchf-convergedcharging/v3/recharging", sbiPort))
				if err == nil {
					rec["probe"] = resp.StatusCode
					resp.Body.Close()
				} else {
					rec["err"] = "probe: " + err.Error()
				}
			}
			server.Stop()
		}
		_ = srvNrf.Close()
		b, _ := json.Marshal(rec)
		_, _ = w.Write(b)
		_ = w.WriteByte('\n')
	}
	return nil
}
