package verifharness

// Drivers for C19 (late / lost Diameter answers) and C18 (connections and tasks stay bounded).
// C19: harness-owned rating and account-balance peers (go-diameter state machines over TLS) delay, drop or
// reorder their answers according to a scripted fate per request and tag every answer, so that the value the
// CHF acted upon reveals which answer it took.

import (
	"sync/atomic"
	"bufio"
	"bytes"
	"crypto/tls"
	"encoding/json"
	"fmt"
	"net"
	"os"
	"runtime"
	"strings"
	"sync"
	"time"

	"github.com/fiorix/go-diameter/diam"
	"github.com/fiorix/go-diameter/diam/datatype"
	"github.com/fiorix/go-diameter/diam/dict"
	"github.com/fiorix/go-diameter/diam/sm"

	charging_datatype "github.com/free5gc/chf/ccs_diameter/datatype"
	charging_dict "github.com/free5gc/chf/ccs_diameter/dict"
	chf_context "github.com/free5gc/chf/internal/context"
)

type LinkCase struct {
	ID    string   `json:"id"`
	Iface string   `json:"iface"` // "abmf" | "rating": which peer misbehaves
	Fates []string `json:"fates"` // per update: prompt | late_idle | late_during_next | drop
	// rating only: which of the (up to three) rating requests of an update the fate applies to -- 1 tariff lookup,
	// 2 reservation (default), 3 tariff lookup after the grant; 0 ("dense"): fates[i] applies to the i-th rating request
	// of the FIRST update, the following updates are answered promptly
	Pos   int  `json:"pos"`
	Dense bool `json:"dense"`
	// Cross: two subscribers; the peer named by Iface holds its answers to subscriber A for 2 s (well within the
	// time-out) while subscriber B's update starts 0.7 s after A's: each must act on its own answers
	Cross bool `json:"cross"`
	// Release2: the subscriber has a second charging session; the FIRST operation of the case is the release of that
	// session (it reports online usage, so it has a rating / account round of its own, subject to fates[0]); the
	// following operations are updates of the first session
	Release2 bool `json:"release2"`
	// Recharge: 150 ms before every update a recharge notification for ANOTHER rating group of the subscriber arrives (from
	// the web console, on its own connection) and is served concurrently.  A recharge uses neither Diameter link (DiamLink:
	// requests of one subscriber are sent one at a time, under the subscriber lock), so the scripted fates meet the update's
	// own requests and every answer is attributed as without it
	Recharge bool `json:"recharge"`
	// Alt: the subscriber has two charging sessions that number their invocations independently (TS 32.290); the
	// operations alternate between them -- A(2), B(2), A(3), B(3) ... -- so that consecutive requests of the subscriber
	// carry the same invocation sequence number
	Alt bool `json:"alt"`
}

// DensePos reports whether the fates are to be laid over consecutive rating requests of one update.
func (c LinkCase) DensePos() bool { return c.Iface == "rating" && c.Dense }

type scriptedPeer struct {
	mu      sync.Mutex
	count   int
	fates   map[int]string // peer request number -> fate
	held    []func()       // answers waiting for the next request
	log     []int
	answers []int
	amounts map[int]uint64           // abmf: requested amount of peer request n
	who     map[int]string           // peer request n -> subscription id data of the request
	slowFor map[string]time.Duration // answers to this subscriber's requests are held that long (within the time-out)
}

// note records which subscriber peer request n (the next one) belongs to and returns the hold time for it.
func (p *scriptedPeer) note(sub string) time.Duration {
	p.mu.Lock()
	defer p.mu.Unlock()
	if p.who == nil {
		p.who = map[int]string{}
	}
	p.who[p.count+1] = sub
	return p.slowFor[sub]
}

func (p *scriptedPeer) arrive(answerN func(n int)) (n int) {
	p.mu.Lock()
	p.count++
	n = p.count
	answer := func() { answerN(n) }
	p.log = append(p.log, n)
	fate := p.fates[n]
	held := p.held
	p.held = nil
	p.mu.Unlock()
	// answers that were waiting for "the next request" go out first
	for _, h := range held {
		go func(h func()) { time.Sleep(50 * time.Millisecond); h() }(h)
	}
	delay := time.Duration(0)
	if len(held) > 0 {
		delay = 400 * time.Millisecond
	}
	switch fate {
	case "", "prompt":
		go func() { time.Sleep(delay); answer() }()
	case "slow": // well within the time-out
		go func() { time.Sleep(2000 * time.Millisecond); answer() }()
	case "late_idle":
		go func() { time.Sleep(5600 * time.Millisecond); answer() }()
	case "late_during_next":
		p.mu.Lock()
		p.held = append(p.held, answer)
		p.mu.Unlock()
	case "drop":
	}
	return n
}

// peerFaults: connection-level misbehaviour of the scripted peers (C18): every SlowEvery-th connection to the rating
// peer is held for SlowDelay before its first octet is read (TLS and CER/CEA complete late); every DropEvery-th
// connection to the account peer is closed by the peer right after the capabilities exchange.
type peerFaults struct {
	SlowEvery int
	SlowDelay time.Duration
	DropEvery int
}

type slowConn struct {
	net.Conn
	once  sync.Once
	delay time.Duration
}

func (c *slowConn) Read(b []byte) (int, error) {
	c.once.Do(func() { time.Sleep(c.delay) })
	return c.Conn.Read(b)
}

type slowListener struct {
	net.Listener
	mu    sync.Mutex
	n     int
	every int
	delay time.Duration
}

func (l *slowListener) Accept() (net.Conn, error) {
	c, err := l.Listener.Accept()
	if err != nil {
		return c, err
	}
	l.mu.Lock()
	l.n++
	slow := l.every > 0 && l.n%l.every == 0
	l.mu.Unlock()
	if slow {
		return &slowConn{Conn: c, delay: l.delay}, nil
	}
	return c, nil
}

func serveTLSOn(addr, pem, key string, h diam.Handler, wrap func(net.Listener) net.Listener) error {
	cert, err := tls.LoadX509KeyPair(pem, key)
	if err != nil {
		return err
	}
	ln, err := net.Listen("tcp", addr)
	if err != nil {
		return err
	}
	if wrap != nil {
		ln = wrap(ln)
	}
	return diam.Serve(tls.NewListener(ln, &tls.Config{Certificates: []tls.Certificate{cert}}), h)
}

func startScriptedPeers(addrRf, addrAb, pem, key string) (rfp, abp *scriptedPeer) {
	return startScriptedPeersF(addrRf, addrAb, pem, key, nil)
}

func startScriptedPeersF(addrRf, addrAb, pem, key string, faults *peerFaults) (rfp, abp *scriptedPeer) {
	_ = dict.Default.Load(bytes.NewReader([]byte(charging_dict.RateDictionary)))
	_ = dict.Default.Load(bytes.NewReader([]byte(charging_dict.AbmfDictionary)))
	settings := &sm.Settings{OriginHost: "server", OriginRealm: "go-diameter", VendorID: 13, ProductName: "go-diameter", FirmwareRevision: 1}
	rfp = &scriptedPeer{fates: map[int]string{}}
	abp = &scriptedPeer{fates: map[int]string{}}
	rmux := sm.New(settings)
	rmux.HandleFunc("SUR", func(c diam.Conn, m *diam.Message) {
		var sur charging_datatype.ServiceUsageRequest
		_ = m.Unmarshal(&sur)
		subR := ""
		if sur.SubscriptionId != nil {
			subR = string(sur.SubscriptionId.SubscriptionIdData)
		}
		holdR := rfp.note(subR)
		rfp.arrive(func(n int) {
			time.Sleep(holdR)
			sua := charging_datatype.ServiceUsageResponse{
				SessionId: sur.SessionId, EventTimestamp: datatype.Time(time.Now()),
				ServiceRating: &charging_datatype.ServiceRating{
					AllowedUnits: datatype.Unsigned32(100 + n), Price: 0,
					MonetaryTariff: &charging_datatype.MonetaryTariff{
						CurrencyCode: 901,
						ScaleFactor:  &charging_datatype.ScaleFactor{},
						RateElement: &charging_datatype.RateElement{
							CCUnitType: charging_datatype.MONEY, UnitCost: &charging_datatype.UnitCost{ValueDigits: datatype.Integer64(1000 + n), Exponent: 0},
						},
					},
				},
			}
			a := m.Answer(diam.Success)
			_ = a.Marshal(&sua)
			_, _ = a.WriteTo(c)
		})
	})
	amux := sm.New(settings)
	amux.HandleFunc("CCR", func(c diam.Conn, m *diam.Message) {
		var ccr charging_datatype.AccountDebitRequest
		_ = m.Unmarshal(&ccr)
		var asked uint64
		if ccr.MultipleServicesCreditControl != nil && ccr.MultipleServicesCreditControl.RequestedServiceUnit != nil {
			asked = uint64(ccr.MultipleServicesCreditControl.RequestedServiceUnit.CCTotalOctets)
		}
		abp.mu.Lock()
		if abp.amounts == nil {
			abp.amounts = map[int]uint64{}
		}
		abp.amounts[abp.count+1] = asked
		abp.mu.Unlock()
		subA := ""
		if ccr.SubscriptionId != nil {
			subA = string(ccr.SubscriptionId.SubscriptionIdData)
		}
		holdA := abp.note(subA)
		abp.arrive(func(n int) {
			time.Sleep(holdA)
			cca := charging_datatype.AccountDebitResponse{
				SessionId: ccr.SessionId, OriginHost: ccr.DestinationHost, OriginRealm: ccr.DestinationRealm,
				CcRequestType: ccr.CcRequestType, CcRequestNumber: ccr.CcRequestNumber, EventTimestamp: datatype.Time(time.Now()),
			}
			if ccr.MultipleServicesCreditControl != nil {
				cca.MultipleServicesCreditControl = &charging_datatype.MultipleServicesCreditControl{
					RatingGroup:        ccr.MultipleServicesCreditControl.RatingGroup,
					GrantedServiceUnit: &charging_datatype.GrantedServiceUnit{CCTotalOctets: datatype.Unsigned64(1000 * n)},
				}
			}
			a := m.Answer(diam.Success)
			_ = a.Marshal(&cca)
			_, _ = a.WriteTo(c)
		})
	})
	if faults == nil {
		go func() { _ = diam.ListenAndServeTLS(addrRf, pem, key, rmux, nil) }()
		go func() { _ = diam.ListenAndServeTLS(addrAb, pem, key, amux, nil) }()
		return rfp, abp
	}
	go func() {
		_ = serveTLSOn(addrRf, pem, key, rmux, func(l net.Listener) net.Listener {
			return &slowListener{Listener: l, every: faults.SlowEvery, delay: faults.SlowDelay}
		})
	}()
	go func() { _ = serveTLSOn(addrAb, pem, key, amux, nil) }()
	go func() {
		n := 0
		for c := range amux.HandshakeNotify() {
			n++
			if faults.DropEvery > 0 && n%faults.DropEvery == 0 {
				c.Close()
			}
		}
	}()
	go func() {
		for range rmux.HandshakeNotify() {
		}
	}()
	return rfp, abp
}

func RunLink(prefix, in, out string) error {
	raw, err := os.ReadFile(in)
	if err != nil {
		return err
	}
	var cases []LinkCase
	if err = json.Unmarshal(raw, &cases); err != nil {
		return err
	}
	f, err := os.Create(out)
	if err != nil {
		return err
	}
	defer f.Close()
	w := bufio.NewWriterSize(f, 1<<20)
	defer w.Flush()
	env, err := StartEnv(EnvOpts{NoRating: true, NoAbmf: true})
	if err != nil {
		return err
	}
	defer env.Close()
	rfp, abp := startScriptedPeers(fmt.Sprintf("127.0.0.1:%d", env.RfPort), fmt.Sprintf("127.0.0.1:%d", env.AbPort), env.Pem, env.Key)
	if !WaitPort(env.RfPort, 5*time.Second) || !WaitPort(env.AbPort, 5*time.Second) {
		return fmt.Errorf("scripted peers did not come up")
	}
	for ci, c := range cases {
		if c.Cross {
			runCross(env, rfp, abp, prefix, ci, c, w)
			continue
		}
		supi := fmt.Sprintf("imsi-%s%d", prefix, ci+1)
		body := fmt.Sprintf(`{"subscriberIdentifier":%q,"nfConsumerIdentification":{"nFName":"smf","nodeFunctionality":"SMF"},"invocationSequenceNumber":1,"chargingId":3}`, supi)
		hr := env.Do("POST", "/nchf-convergedcharging/v3/chargingdata", []byte(body), nil, 10*time.Second)
		ref := ""
		if i := strings.LastIndex(hr.Location, "/"); i >= 0 {
			ref = hr.Location[i+1:]
		}
		ref2 := ""
		if c.Release2 || c.Alt {
			hr2 := env.Do("POST", "/nchf-convergedcharging/v3/chargingdata", []byte(strings.Replace(body, `"chargingId":3`, `"chargingId":4`, 1)), nil, 10*time.Second)
			if i := strings.LastIndex(hr2.Location, "/"); i >= 0 {
				ref2 = hr2.Location[i+1:]
			}
		}
		var updates []any
		wedged := false
		for n, fate := range c.Fates {
			if wedged {
				updates = append(updates, map[string]any{"n": n + 1, "skipped": true, "finished": false, "status": -2, "okStatus": 200, "own": map[string]any{"abmf": []int{}, "rating": []int{}},
					"usedAbmf": -1, "usedRating": -1, "usedCost": -1, "usedCostFirst": -1, "ms": 0})
				continue
			}
			rfp.mu.Lock()
			abp.mu.Lock()
			r0, a0 := rfp.count, abp.count
			// the scripted fate applies to the first request this update sends on the chosen interface
			switch {
			case c.Iface == "abmf":
				abp.fates[a0+1] = fate
			case c.Pos == 0 && c.DensePos():
				if n == 0 {
					for i, f := range c.Fates {
						rfp.fates[r0+1+i] = f
					}
				}
			case c.Pos == 1 || c.Pos == 3:
				rfp.fates[r0+c.Pos] = fate
			default:
				rfp.fates[r0+2] = fate // the rating request whose Allowed-Units decide the grant
			}
			abp.mu.Unlock()
			rfp.mu.Unlock()
			var reservedBefore int64
			if ue, ok := chf_context.GetSelf().ChfUeFindBySupi(supi); ok {
				reservedBefore = ue.ReservedQuota[1]
			}
			isn := n + 2
			if c.Alt {
				isn = 2 + n/2
			}
			upd := fmt.Sprintf(`{"subscriberIdentifier":%q,"invocationSequenceNumber":%d,"multipleUnitUsage":[{"ratingGroup":1,"requestedUnit":{"totalVolume":%d},"usedUnitContainer":[{"quotaManagementIndicator":"ONLINE_CHARGING","totalVolume":0,"localSequenceNumber":%d}]}]}`,
				supi, isn, 100000*(n+1), n+1)
			if c.Recharge {
				go func() {
					_ = env.Do("PUT", "/nchf-convergedcharging/v3/recharging/"+supi+"_2", nil, nil, 30*time.Second)
				}()
				time.Sleep(150 * time.Millisecond)
			}
			t0 := time.Now()
			okStatus := 200
			var res HTTPResult
			if c.Release2 && n == 0 {
				okStatus = 204
				res = env.Do("POST", "/nchf-convergedcharging/v3/chargingdata/"+ref2+"/release", []byte(upd), nil, 45*time.Second)
			} else if c.Alt && n%2 == 1 {
				res = env.Do("POST", "/nchf-convergedcharging/v3/chargingdata/"+ref2+"/update", []byte(upd), nil, 45*time.Second)
			} else {
				res = env.Do("POST", "/nchf-convergedcharging/v3/chargingdata/"+ref+"/update", []byte(upd), nil, 45*time.Second)
			}
			ms := time.Since(t0).Milliseconds()
			rfp.mu.Lock()
			abp.mu.Lock()
			own := map[string]any{"abmf": seqRange(a0+1, abp.count), "rating": seqRange(r0+1, rfp.count)}
			abp.mu.Unlock()
			rfp.mu.Unlock()
			usedAb, usedRf, usedCost, usedCostFirst := -1, -1, -1, -1
			abp.mu.Lock()
			if asked, ok := abp.amounts[a0+1]; ok && !res.Timeout {
				// the first CCR of the update asks for requestedVolume x unitCost(first tariff lookup) - reservation held
				vol := uint64(100000 * (n + 1))
				tot := asked + uint64(reservedBefore)
				switch {
				case tot == vol: // unit cost 1: the lookup failed (timed out)
				case tot%vol == 0 && tot/vol >= 1000:
					usedCostFirst = int(tot/vol) - 1000
				default:
					usedCostFirst = -3
				}
			}
			abp.mu.Unlock()
			if ue, ok := chf_context.GetSelf().ChfUeFindBySupi(supi); ok && !res.Timeout {
				if c := int(ue.UnitCost[1]); c >= 1000 {
					usedCost = c - 1000 // tag of the rating answer the unit cost was last taken from
				}
				if d := ue.ReservedQuota[1] - reservedBefore; d > 0 && d%1000 == 0 {
					usedAb = int(d / 1000)
				} else if d != 0 {
					usedAb = -3 // a reservation change that no single peer answer explains
				}
			}
			var rb struct {
				M []struct {
					G *struct {
						T int `json:"totalVolume"`
					} `json:"grantedUnit"`
				} `json:"multipleUnitInformation"`
			}
			if json.Unmarshal([]byte(res.Body), &rb) == nil && len(rb.M) > 0 && rb.M[0].G != nil {
				usedRf = rb.M[0].G.T - 100
			}
			updates = append(updates, map[string]any{"n": n + 1, "skipped": false, "finished": !res.Timeout, "status": res.Status, "okStatus": okStatus, "own": own,
				"usedAbmf": usedAb, "usedRating": usedRf, "usedCost": usedCost, "usedCostFirst": usedCostFirst, "ms": ms})
			if res.Timeout {
				wedged = true
				continue
			}
			if fate == "late_idle" {
				time.Sleep(1200 * time.Millisecond) // let the late answer arrive while the subscriber is idle
			}
		}
		b, _ := json.Marshal(map[string]any{"trace": c.ID, "seq": ci, "action": "link", "iface": c.Iface, "fates": c.Fates, "pos": c.Pos, "dense": c.DensePos(), "updates": updates})
		_, _ = w.Write(b)
		_ = w.WriteByte('\n')
	}
	return nil
}

// runCross: see LinkCase.Cross.
func runCross(env *Env, rfp, abp *scriptedPeer, prefix string, ci int, c LinkCase, w *bufio.Writer) {
	type side struct {
		supi, ref string
		status    int
		timeout   bool
		ms        int64
		granted   int
		resBefore int64
		resAfter  int64
	}
	sides := []*side{{supi: fmt.Sprintf("imsi-%s%d7", prefix, ci+1)}, {supi: fmt.Sprintf("imsi-%s%d8", prefix, ci+1)}}
	for _, sd := range sides {
		body := fmt.Sprintf(`{"subscriberIdentifier":%q,"nfConsumerIdentification":{"nFName":"smf","nodeFunctionality":"SMF"},"invocationSequenceNumber":1,"chargingId":3}`, sd.supi)
		hr := env.Do("POST", "/nchf-convergedcharging/v3/chargingdata", []byte(body), nil, 10*time.Second)
		if i := strings.LastIndex(hr.Location, "/"); i >= 0 {
			sd.ref = hr.Location[i+1:]
		}
	}
	slow := abp
	if c.Iface == "rating" {
		slow = rfp
	}
	slow.mu.Lock()
	slow.slowFor = map[string]time.Duration{sides[0].supi[5:]: 2 * time.Second}
	slow.mu.Unlock()
	rfp.mu.Lock()
	abp.mu.Lock()
	r0, a0 := rfp.count, abp.count
	abp.mu.Unlock()
	rfp.mu.Unlock()
	var wg sync.WaitGroup
	for k, sd := range sides {
		wg.Add(1)
		go func(k int, sd *side) {
			defer wg.Done()
			time.Sleep(time.Duration(k) * 700 * time.Millisecond)
			if ue, ok := chf_context.GetSelf().ChfUeFindBySupi(sd.supi); ok {
				sd.resBefore = ue.ReservedQuota[1]
			}
			upd := fmt.Sprintf(`{"subscriberIdentifier":%q,"invocationSequenceNumber":2,"multipleUnitUsage":[{"ratingGroup":1,"requestedUnit":{"totalVolume":100000},"usedUnitContainer":[{"quotaManagementIndicator":"ONLINE_CHARGING","totalVolume":0,"localSequenceNumber":%d}]}]}`, sd.supi, k+1)
			t0 := time.Now()
			res := env.Do("POST", "/nchf-convergedcharging/v3/chargingdata/"+sd.ref+"/update", []byte(upd), nil, 45*time.Second)
			sd.ms = time.Since(t0).Milliseconds()
			sd.status, sd.timeout = res.Status, res.Timeout
			sd.granted = -1
			var rb struct {
				M []struct {
					G *struct {
						T int `json:"totalVolume"`
					} `json:"grantedUnit"`
				} `json:"multipleUnitInformation"`
			}
			if json.Unmarshal([]byte(res.Body), &rb) == nil && len(rb.M) > 0 && rb.M[0].G != nil {
				sd.granted = rb.M[0].G.T
			}
			if ue, ok := chf_context.GetSelf().ChfUeFindBySupi(sd.supi); ok {
				sd.resAfter = ue.ReservedQuota[1]
			}
		}(k, sd)
	}
	wg.Wait()
	slow.mu.Lock()
	slow.slowFor = nil
	slow.mu.Unlock()
	own := func(p *scriptedPeer, from int, sub string) []int {
		p.mu.Lock()
		defer p.mu.Unlock()
		out := []int{}
		for n := from + 1; n <= p.count; n++ {
			if p.who[n] == sub {
				out = append(out, n)
			}
		}
		return out
	}
	var out []any
	for _, sd := range sides {
		usedAb, usedRf := -1, -1
		if d := sd.resAfter - sd.resBefore; d > 0 && d%1000 == 0 {
			usedAb = int(d / 1000)
		} else if d != 0 {
			usedAb = -3
		}
		if sd.granted >= 0 {
			usedRf = sd.granted - 100
		}
		out = append(out, map[string]any{"finished": !sd.timeout, "status": sd.status, "ms": sd.ms, "usedAbmf": usedAb, "usedRating": usedRf,
			"own": map[string]any{"abmf": own(abp, a0, sd.supi[5:]), "rating": own(rfp, r0, sd.supi[5:])}})
	}
	b, _ := json.Marshal(map[string]any{"trace": c.ID, "seq": ci, "action": "cross", "iface": c.Iface, "sides": out})
	_, _ = w.Write(b)
	_ = w.WriteByte('\n')
}

func seqRange(a, b int) []int {
	out := []int{}
	for i := a; i <= b; i++ {
		out = append(out, i)
	}
	return out
}

// ---- C18 ----------------------------------------------------------------------------------------

type LeakCase struct {
	ID      string `json:"id"`
	N       int    `json:"n"`
	Subs    int    `json:"subs"`
	FinalAt int    `json:"finalAt"` // every k-th update carries the FINAL trigger (0: never)
	NoAcct  bool   `json:"noAcct"`  // every update also names a rating group without account / tariff (never answered)
	// PeerFault: "" = the real servers; "slowcea" / "dropaftercea" = scripted peers with that connection-level fault
	PeerFault string `json:"peerFault"`
	// NewSubs: every update of the measured phase is the first one of a subscriber the CHF has not seen before
	NewSubs bool `json:"newSubs"`
	// Used: the volumes reported as used, in turn (default: always 5 of the 10 requested -- a report below the grant;
	// 10 and more settle the whole reservation, 0 reports nothing)
	Used []int `json:"used"`
	// DbFailEvery: every k-th write of the store fails (a transient write error; 0 = never)
	DbFailEvery int `json:"dbFailEvery"`
}

func establishedTo(ports ...int) int {
	data, err := os.ReadFile("/proc/self/net/tcp")
	if err != nil {
		return -1
	}
	want := map[string]bool{}
	for _, p := range ports {
		want[fmt.Sprintf("%04X", p)] = true
	}
	n, srv := 0, 0
	for _, line := range strings.Split(string(data), "\n")[1:] {
		f := strings.Fields(line)
		if len(f) < 4 {
			continue
		}
		rem := strings.Split(f[2], ":")
		if len(rem) == 2 && want[rem[1]] && f[3] == "01" { // remote port is a Diameter server port, state ESTABLISHED
			n++
		}
		// the servers' side of the connections (they run in this process): established or waiting for the server to close
		loc := strings.Split(f[1], ":")
		if len(loc) == 2 && want[loc[1]] && (f[3] == "01" || f[3] == "08") {
			srv++
		}
	}
	if srv > n {
		return srv
	}
	return n
}

func RunLeak(prefix, in, out string) error {
	raw, err := os.ReadFile(in)
	if err != nil {
		return err
	}
	var cases []LeakCase
	if err = json.Unmarshal(raw, &cases); err != nil {
		return err
	}
	f, err := os.Create(out)
	if err != nil {
		return err
	}
	defer f.Close()
	w := bufio.NewWriterSize(f, 1<<20)
	defer w.Flush()
	faulty := len(cases) > 0 && cases[0].PeerFault != ""
	env, err := StartEnv(EnvOpts{NoRating: faulty, NoAbmf: faulty})
	if err != nil {
		return err
	}
	defer env.Close()
	if faulty {
		pf := &peerFaults{}
		switch cases[0].PeerFault {
		case "slowcea":
			pf.SlowEvery, pf.SlowDelay = 3, 2500*time.Millisecond
		case "dropaftercea":
			pf.DropEvery = 2
		}
		startScriptedPeersF(fmt.Sprintf("127.0.0.1:%d", env.RfPort), fmt.Sprintf("127.0.0.1:%d", env.AbPort), env.Pem, env.Key, pf)
		if !WaitPort(env.RfPort, 5*time.Second) || !WaitPort(env.AbPort, 5*time.Second) {
			return fmt.Errorf("scripted peers did not come up")
		}
	}
	for ci, c := range cases {
		env.ResetState(0)
		refs := make([]string, c.Subs)
		supis := make([]string, c.Subs)
		for s := 0; s < c.Subs; s++ {
			supis[s] = fmt.Sprintf("imsi-%s%d%d", prefix, ci, s+1)
			env.PutAccount(supis[s], 1, "2000000000", "1")
			body := fmt.Sprintf(`{"subscriberIdentifier":%q,"nfConsumerIdentification":{"nFName":"smf","nodeFunctionality":"SMF"},"invocationSequenceNumber":1,"chargingId":3}`, supis[s])
			hr := env.Do("POST", "/nchf-convergedcharging/v3/chargingdata", []byte(body), nil, 10*time.Second)
			if i := strings.LastIndex(hr.Location, "/"); i >= 0 {
				refs[s] = hr.Location[i+1:]
			}
		}
		// warm-up so that lazily started tasks are part of the baseline
		for s := 0; s < c.Subs; s++ {
			leakUpdate(env, supis[s], refs[s], 1, false, false)
		}
		time.Sleep(300 * time.Millisecond)
		base := runtime.NumGoroutine()
		baseConn := establishedTo(env.RfPort, env.AbPort)
		if c.DbFailEvery > 0 {
			var writes int32
			k := int32(c.DbFailEvery)
			env.Mongo.FailUpdate = func(string) bool { return atomic.AddInt32(&writes, 1)%k == 0 }
		} else {
			env.Mongo.FailUpdate = nil
		}
		var samples []any
		bad := 0
		for i := 0; i < c.N; i++ {
			s := i % c.Subs
			final := c.FinalAt > 0 && (i+1)%c.FinalAt == 0
			leakUsed = 5
			if len(c.Used) > 0 {
				leakUsed = c.Used[i%len(c.Used)]
			}
			if c.NewSubs {
				supi := fmt.Sprintf("imsi-%s%d9%03d", prefix, ci, i)
				env.PutAccount(supi, 1, "2000000000", "1")
				body := fmt.Sprintf(`{"subscriberIdentifier":%q,"nfConsumerIdentification":{"nFName":"smf","nodeFunctionality":"SMF"},"invocationSequenceNumber":1,"chargingId":3}`, supi)
				hr := env.Do("POST", "/nchf-convergedcharging/v3/chargingdata", []byte(body), nil, 10*time.Second)
				ref := ""
				if k := strings.LastIndex(hr.Location, "/"); k >= 0 {
					ref = hr.Location[k+1:]
				}
				if st := leakUpdate(env, supi, ref, 2, final, false); st != 200 {
					bad++
				}
				if i < 10 || (i+1)%10 == 0 || i == c.N-1 {
					time.Sleep(60 * time.Millisecond)
					samples = append(samples, map[string]any{"i": i + 1, "conns": establishedTo(env.RfPort, env.AbPort), "tasks": runtime.NumGoroutine() - base})
				}
				continue
			}
			st := leakUpdate(env, supis[s], refs[s], i+2, final, c.NoAcct)
			if st != 200 && !faulty {
				bad++
			}
			if i < 10 || (i+1)%10 == 0 || i == c.N-1 {
				time.Sleep(60 * time.Millisecond)
				samples = append(samples, map[string]any{"i": i + 1, "conns": establishedTo(env.RfPort, env.AbPort), "tasks": runtime.NumGoroutine() - base})
			}
		}
		time.Sleep(400 * time.Millisecond)
		samples = append(samples, map[string]any{"i": c.N, "conns": establishedTo(env.RfPort, env.AbPort), "tasks": runtime.NumGoroutine() - base})
		b, _ := json.Marshal(map[string]any{"trace": c.ID, "seq": ci, "action": "leak", "n": c.N, "subs": c.Subs, "baseConns": baseConn,
			"samples": samples, "failed": bad, "used": c.Used != nil, "noAcct": c.NoAcct || faulty, "peerFault": c.PeerFault})
		_, _ = w.Write(b)
		_ = w.WriteByte('\n')
	}
	return nil
}

var leakUsed = 5

func leakUpdate(env *Env, supi, ref string, seq int, final, noAcct bool) int {
	extra := ""
	if noAcct {
		extra = fmt.Sprintf(`,{"ratingGroup":7,"requestedUnit":{"totalVolume":10},"usedUnitContainer":[{"quotaManagementIndicator":"ONLINE_CHARGING","totalVolume":0,"localSequenceNumber":%d}]}`, seq+100000)
	}
	trig := ""
	if final {
		trig = `,"triggers":[{"triggerType":"FINAL","triggerCategory":"IMMEDIATE_REPORT"}]`
	}
	upd := fmt.Sprintf(`{"subscriberIdentifier":%q,"invocationSequenceNumber":%d,"multipleUnitUsage":[{"ratingGroup":1,"requestedUnit":{"totalVolume":10},"usedUnitContainer":[{"quotaManagementIndicator":"ONLINE_CHARGING","totalVolume":%d,"localSequenceNumber":%d}]}%s]%s}`,
		supi, seq, leakUsed, seq, extra, trig)
	return env.Do("POST", "/nchf-convergedcharging/v3/chargingdata/"+ref+"/update", []byte(upd), nil, 60*time.Second).Status
}
