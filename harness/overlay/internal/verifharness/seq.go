package verifharness

// Driver for the ChfSeq family: steps behaviours generated from spec/ChfSeq.tla through
// the real gin router / processor / Diameter servers and records, after every step, the
// projection of the implementation state that spec/ChfSeqTrace.tla judges.

import (
	"hash/crc32"
	"reflect"
	"sort"
	"crypto/sha1"
	"bufio"
	"encoding/json"
	"fmt"
	"net/url"
	"os"
	"strconv"
	"strings"
	"time"

	charging_datatype "github.com/free5gc/chf/ccs_diameter/datatype"
	"github.com/free5gc/chf/cdr/asn"
	"github.com/free5gc/chf/cdr/cdrType"
	chf_context "github.com/free5gc/chf/internal/context"
	"github.com/free5gc/chf/pkg/factory"
)

var deadPortNum int

// deadPort is a port of this process's reservation on which nothing listens (connections are refused at once).
func deadPort() int {
	if deadPortNum == 0 {
		deadPortNum = FreePort()
	}
	return deadPortNum
}

type Acct struct {
	U     string `json:"u"`
	Rg    string `json:"rg"`
	Quota int64  `json:"quota"`
	Cost  string `json:"cost"`
}

type Cont struct {
	M   string `json:"m"` // "on" | "off" | "susp"
	Vol int64  `json:"vol"`
}

type Usage struct {
	Rg    string `json:"rg"`
	Req   int64  `json:"req"` // -1: requestedUnit absent
	Conts []Cont `json:"conts"`
}

type Step struct {
	A       string `json:"a"`
	U       string `json:"u"`
	S       string `json:"s"`
	C       string `json:"c"`
	Onetime bool   `json:"onetime"`
	Ett     string `json:"ett"` // oneTimeEventType ("" = absent)
	// Fault: "abmf" = the account balance function cannot be reached while this request is served
	Fault string   `json:"fault"`
	Kind  string   `json:"kind"` // badcreate: what is wrong with the request
	Usage []Usage  `json:"usage"`
	Trig  []string `json:"trig"`
	Rg    string   `json:"rg"`
	Amt   int64    `json:"amt"`
	Ans   int      `json:"ans"`  // recharge: status the consumer's notification endpoint answers with (0 = 204)
	Addr  string   `json:"addr"` // create: which address members the consumer identification carries
	Upf   string   `json:"upf"`  // update/release: UPF identifier of the usage entries (default "upf"+session label)
	Nfc   bool     `json:"nfc"`  // update/release: repeat the consumer identification of the create
	Pad   int      `json:"pad"`
	Chid  int32    `json:"chid"`
	Tz    *int     `json:"tz"` // seconds east of UTC to install as time.Local before the step
	Plmn  string   `json:"plmn"` // create: the consumer's PLMN as "mcc/mnc" ("" = absent)
}

type Behaviour struct {
	ID    string   `json:"id"`
	Lrsn0 uint64   `json:"lrsn0"`
	Wb    bool     `json:"wb"`
	Ues   []string `json:"ues"`
	Accts []Acct   `json:"accts"`
	Steps []Step   `json:"steps"`
	// Isn: how the consumer numbers its invocations: "" = one counter for the whole behaviour; "session" = every session
	// counts its own requests 1, 2, ... (TS 32.290)
	Isn string `json:"isn"`
	// Cfg: the operator's configuration in force while the behaviour runs (copied into every subscriber context at its
	// creation): volume limits, quota validity time, threshold rate as Th/1024 (a dyadic rational, exact in float32)
	Cfg *OpCfg `json:"cfg"`
	// Scale: the unit of money of the replay: balances, unit costs and top-ups of the behaviour are multiplied by it before
	// they are stored, and what is observed (balance, reservation, unit cost) is divided by it again (0 = 1).  With 2^20 a
	// request of 4096 units prices at 2^32 units of money: beyond the 32-bit AVPs
	Scale int64 `json:"scale"`
}

type OpCfg struct {
	Vl  int32 `json:"vl"`
	Vlp int32 `json:"vlp"`
	Qvt int32 `json:"qvt"`
	Th  int32 `json:"th"`
}

type SeqDriver struct {
	Env    *Env
	Prefix string // digits inserted after "imsi-" so that parallel workers never share /tmp/<supi>.cdr
	out    *bufio.Writer
	lsn    int32
}

func (d *SeqDriver) supi(u string) string { return SupiOf(d.Prefix, u) }

func (d *SeqDriver) scale(b *Behaviour) int64 {
	if b.Scale > 1 {
		return b.Scale
	}
	return 1
}

// unscale turns an observed amount of money into the behaviour's unit; an amount that is not a multiple of the unit is
// reported as a sentinel no model value equals
func unscale(v, scale int64) int64 {
	if scale <= 1 {
		return clamp31(v)
	}
	if v%scale != 0 {
		return -2147483646
	}
	return clamp31(v / scale)
}

// SupiOf renders a model subscriber token as a SUPI of this worker.  A token that starts with "0" stands for an IMSI with
// leading zeros (MCC 001 is the test network): "0x" is "00" + prefix + "x", whose zero-stripped form is the SUPI of token "x".
func SupiOf(prefix, u string) string {
	if len(u) > 1 && u[0] == '0' {
		return "imsi-00" + prefix + u[1:]
	}
	return "imsi-" + prefix + u
}

func rgNum(s string) int32 {
	n, _ := strconv.Atoi(s)
	return int32(n)
}

var trigMap = map[string][2]string{
	"final":  {"FINAL", "IMMEDIATE_REPORT"},
	"volume": {"VOLUME_LIMIT", "IMMEDIATE_REPORT"},
	"maxchg": {"MAX_NUMBER_OF_CHANGES_IN_CHARGING_CONDITIONS", "IMMEDIATE_REPORT"},
	"mgmt":   {"MANAGEMENT_INTERVENTION", "IMMEDIATE_REPORT"},
	"other":  {"TARIFF_TIME_CHANGE", "DEFERRED_REPORT"},
}

var rareTriggers = []string{"TAI_CHANGE", "ECGI_CHANGE", "HANDOVER_START", "HANDOVER_COMPLETE", "HANDOVER_CANCEL", "CGI_SAI_CHANGE",
	"RAI_CHANGE", "VSMF_CHANGE", "GFBR_GUARANTEED_STATUS_CHANGE", "ADDITION_OF_ACCESS", "REMOVAL_OF_ACCESS", "USER_LOCATION_CHANGE",
	"START_OF_SDF_ADDITIONAL_ACCESS", "REDUNDANT_TRANSMISSION_CHANGE", "TARIFF_TIME_CHANGE", "PLMN_CHANGE", "RAT_CHANGE",
	"SESSION_AMBR_CHANGE", "UE_TIMEZONE_CHANGE", "ABNORMAL_RELEASE", "QOS_CHANGE", "SERVING_NODE_CHANGE"}

var modeMap = map[string]string{"on": "ONLINE_CHARGING", "off": "OFFLINE_CHARGING", "susp": "QUOTA_MANAGEMENT_SUSPENDED"}

func (d *SeqDriver) emit(v any) {
	b, err := json.Marshal(v)
	if err != nil {
		panic(err)
	}
	_, _ = d.out.Write(b)
	_ = d.out.WriteByte('\n')
}

// RunSeq executes all behaviours of file in and appends their traces to file out.
func RunSeq(env *Env, prefix, in, out string) error {
	raw, err := os.ReadFile(in)
	if err != nil {
		return err
	}
	var behs []Behaviour
	if err = json.Unmarshal(raw, &behs); err != nil {
		return err
	}
	f, err := os.Create(out)
	if err != nil {
		return err
	}
	defer f.Close()
	d := &SeqDriver{Env: env, Prefix: prefix, out: bufio.NewWriterSize(f, 1<<20)}
	defer d.out.Flush()
	for i := range behs {
		d.runOne(&behs[i])
	}
	return nil
}

type sessInfo struct {
	ref string
	u   string
	c   string // consumer name given at creation
}

func (d *SeqDriver) runOne(b *Behaviour) {
	env := d.Env
	env.ResetState(b.Lrsn0)
	if b.Cfg == nil {
		b.Cfg = &OpCfg{Th: 512}
	}
	oc := factory.ChfConfig.Configuration
	oc.VolumeLimit, oc.VolumeLimitPDU, oc.QuotaValidityTime = b.Cfg.Vl, b.Cfg.Vlp, b.Cfg.Qvt
	oc.VolumeThresholdRate = float32(b.Cfg.Th) / 1024
	time.Local = time.UTC
	tzNow := 0
	for _, u := range b.Ues {
		_ = os.Remove("/tmp/" + d.supi(u) + ".cdr")
	}
	defer func() {
		for _, u := range b.Ues {
			_ = os.Remove("/tmp/" + d.supi(u) + ".cdr")
		}
	}()
	for _, a := range b.Accts {
		cost := a.Cost
		if cn, err := strconv.ParseInt(a.Cost, 10, 64); err == nil && b.Scale > 1 {
			cost = strconv.FormatInt(cn*b.Scale, 10)
		}
		env.PutAccount(d.supi(a.U), rgNum(a.Rg), strconv.FormatInt(a.Quota*d.scale(b), 10), cost)
	}
	supis := map[string]string{}
	subs := map[string]string{}
	for _, u := range b.Ues {
		supis[u] = d.supi(u)
		subs[u] = d.supi(u)[5:]
	}
	sess := map[string]*sessInfo{}
	lastGrant := map[string]int64{} // u|rg -> last granted total volume
	isnOf := map[string]int{}       // session label -> invocations so far (Isn == "session")
	seq := 0
	d.emit(map[string]any{
		"trace": b.ID, "seq": seq, "action": "reset",
		"args":  map[string]any{"lrsn0": b.Lrsn0, "wb": b.Wb, "supis": supis, "subs": subs, "url": chf_context.GetSelf().Url, "sink": env.SinkURL},
		"state": d.project(b),
	})
	fileSum := func() map[string]string {
		out := map[string]string{}
		for _, u := range b.Ues {
			raw, err := os.ReadFile("/tmp/" + d.supi(u) + ".cdr")
			if err != nil {
				out[u] = "-"
			} else {
				out[u] = fmt.Sprintf("%d:%x", len(raw), sha1.Sum(raw))
			}
		}
		return out
	}
	for si := range b.Steps {
		st := &b.Steps[si]
		seq++
		filesBefore := fileSum()
		if st.Tz != nil {
			tzNow = *st.Tz
			time.Local = time.FixedZone("vf", tzNow)
		}
		args := map[string]any{"u": st.U, "s": st.S}
		res := map[string]any{}
		switch st.A {
		case "jump":
			// the environment: the CHF has meanwhile opened so many records (for other subscribers) that its record counter
			// stands at 2^32 - Amt; no sequence of requests that can be run gets there, the counter is set
			c := reflect.ValueOf(chf_context.GetSelf()).Elem().FieldByName("LocalRecordSequenceNumber")
			c.SetUint((uint64(1) << 32) - uint64(st.Amt))
			args["below2p32"] = st.Amt
			res["status"] = 0
		case "topup":
			q, _, ok := env.GetAccount(d.supi(st.U), rgNum(st.Rg))
			if ok {
				qi, _ := strconv.ParseInt(q, 10, 64)
				env.SetQuota(d.supi(st.U), rgNum(st.Rg), strconv.FormatInt(qi+st.Amt*d.scale(b), 10))
			}
			args["rg"] = st.Rg
			args["amt"] = st.Amt
			res["status"] = 0
		case "recharge":
			args["rg"] = st.Rg
			args["ans"] = st.Ans
			env.SetSinkStatus(st.Ans)
			path := "/nchf-convergedcharging/v3/recharging/" + d.supi(st.U) + "_" + st.Rg
			r := env.Do("PUT", path, nil, nil, 20*time.Second)
			res = httpRes(r)
		case "badcreate":
			// a create whose content is malformed; it names a notification URI of its own
			body := map[string]any{
				"subscriberIdentifier":     d.supi(st.U),
				"invocationSequenceNumber": 1,
				"nfConsumerIdentification": map[string]any{"nFName": "bad", "nodeFunctionality": "SMF"},
				"notifyUri":                env.SinkURL + "/n/" + st.U + "/bad",
				"chargingId":               99,
			}
			switch st.Kind {
			case "nonfci":
				delete(body, "nfConsumerIdentification")
			case "pdu_noslice":
				body["pDUSessionChargingInformation"] = map[string]any{"chargingId": 7,
					"pduSessionInformation": map[string]any{"pduSessionID": 1, "dnnId": "internet"}}
			case "pdu_noinfo":
				body["pDUSessionChargingInformation"] = map[string]any{"chargingId": 7}
			case "badplmn":
				body["nfConsumerIdentification"] = map[string]any{"nFName": "bad", "nodeFunctionality": "SMF",
					"nFPLMNID": map[string]any{"mcc": "20", "mnc": "893"}}
			}
			args["kind"] = st.Kind
			bb, _ := json.Marshal(body)
			r := env.Do("POST", "/nchf-convergedcharging/v3/chargingdata", bb, nil, 30*time.Second)
			res = httpRes(r)
		case "create", "update", "release":
			isn := seq
			if b.Isn == "session" {
				isnOf[st.S]++
				isn = isnOf[st.S]
			}
			args["isn"] = isn
			body := map[string]any{
				"subscriberIdentifier":     d.supi(st.U),
				"invocationSequenceNumber": isn,
			}
			var sentUsage []any
			lsnLo := d.lsn + 1
			if len(st.Usage) > 0 {
				var mu []any
				for _, us := range st.Usage {
					key := st.U + "|" + us.Rg
					remaining := lastGrant[key]
					upf := "upf" + st.S
					if st.Upf != "" {
						upf = st.Upf
					}
					entry := map[string]any{"ratingGroup": rgNum(us.Rg), "uPFID": upf}
					if us.Req >= 0 {
						entry["requestedUnit"] = map[string]any{"totalVolume": us.Req}
					}
					var conts []any
					var sentConts []any
					for _, c := range us.Conts {
						vol := c.Vol
						if b.Wb && c.M == "on" {
							if vol > remaining {
								vol = remaining
							}
							remaining -= vol
						}
						d.lsn++
						ul := int64(d.lsn%97) + 1
						dl := int64(d.lsn%89) + 2
						ssu := int64(d.lsn%83) + 3
						conts = append(conts, map[string]any{
							"quotaManagementIndicator": modeMap[c.M], "totalVolume": vol,
							"uplinkVolume": ul, "downlinkVolume": dl, "serviceSpecificUnits": ssu,
							"localSequenceNumber": d.lsn,
						})
						sentConts = append(sentConts, map[string]any{
							"m": c.M, "vol": vol, "c": []int64{int64(d.lsn), int64(rgNum(us.Rg)), vol, ul, dl, ssu},
						})
					}
					if conts != nil {
						entry["usedUnitContainer"] = conts
					}
					mu = append(mu, entry)
					if sentConts == nil {
						sentConts = []any{}
					}
					sentUsage = append(sentUsage, map[string]any{"rg": us.Rg, "req": us.Req, "conts": sentConts})
				}
				body["multipleUnitUsage"] = mu
			}
			if sentUsage == nil {
				sentUsage = []any{}
			}
			args["usage"] = sentUsage
			// local sequence numbers of this request's containers: lsnLo..lsnHi (consecutive; empty when lsnHi < lsnLo)
			args["lsnLo"], args["lsnHi"] = lsnLo, d.lsn
			trig := st.Trig
			if trig == nil {
				trig = []string{}
			}
			args["trig"] = trig
			if len(trig) > 0 {
				var ts []any
				for _, t := range trig {
					m := trigMap[t]
					if t == "rare" {
						// one of the trigger types an SMF reports less often, in turn
						m = [2]string{rareTriggers[seq%len(rareTriggers)], "IMMEDIATE_REPORT"}
					}
					ts = append(ts, map[string]any{"triggerType": m[0], "triggerCategory": m[1]})
				}
				body["triggers"] = ts
			}
			base := "/nchf-convergedcharging/v3/chargingdata"
			var r HTTPResult
			t0 := time.Now()
			if st.A == "create" {
				notify := env.SinkURL + "/n/" + st.U + "/" + st.S
				// the form of the callback URI is the consumer's business: a trailing slash, an empty segment, a query
				// (chosen from the behaviour and the session; the model compares what was registered with what was called)
				switch crc32.ChecksumIEEE([]byte(b.ID+"/"+st.S)) % 5 {
				case 1:
					notify += "/"
				case 2:
					notify = env.SinkURL + "/n//" + st.U + "/" + st.S
				case 3:
					notify += "?consumer=" + st.U + "&x=%2F"
				}
				nfc := map[string]any{"nFName": st.C, "nodeFunctionality": "SMF"}
				if i := strings.Index(st.Plmn, "/"); i > 0 {
					nfc["nFPLMNID"] = map[string]any{"mcc": st.Plmn[:i], "mnc": st.Plmn[i+1:]}
				}
				args["plmn"] = st.Plmn
				// how the consumer identifies its address: legal alternatives of NFIdentification
				if st.Addr == "v4" || st.Addr == "all" {
					nfc["nFIPv4Address"] = "10.1.2.3"
				}
				if st.Addr == "v6" || st.Addr == "all" {
					nfc["nFIPv6Address"] = "2001:db8::1"
				}
				if st.Addr == "fqdn" || st.Addr == "all" {
					nfc["nFFqdn"] = "smf.example.org"
				}
				args["addr"] = st.Addr
				body["nfConsumerIdentification"] = nfc
				body["notifyUri"] = notify
				body["chargingId"] = st.Chid
				if st.Onetime {
					body["oneTimeEvent"] = true
				}
				if st.Ett != "" {
					body["oneTimeEventType"] = st.Ett
				}
				args["ett"] = st.Ett
				if st.Pad > 0 {
					body["serviceSpecificationInfo"] = strings.Repeat("x", st.Pad)
				}
				args["c"] = st.C
				args["onetime"] = st.Onetime
				args["pad"] = st.Pad
				args["chid"] = st.Chid
				args["notify"] = notify
				bb, _ := json.Marshal(body)
				r = env.Do("POST", base, bb, nil, 30*time.Second)
				res = httpRes(r)
				t1 := time.Now()
				args["tz"] = tzNow
				args["times"] = candTimes(t0, t1)
				pref := chf_context.GetSelf().Url + base + "/"
				if r.Status == 201 && strings.HasPrefix(r.Location, pref) {
					sess[st.S] = &sessInfo{ref: r.Location[len(pref):], u: st.U, c: st.C}
					res["ref"] = sess[st.S].ref
				} else {
					res["ref"] = ""
				}
			} else {
				ref := "no-such-ref"
				if si, ok := sess[st.S]; ok {
					ref = si.ref
					if st.Nfc {
						// a consumer repeats its identification in every request of the session
						body["nfConsumerIdentification"] = map[string]any{"nFName": si.c, "nodeFunctionality": "SMF"}
					}
				} else if strings.HasPrefix(st.S, "future") {
					// a reference the CHF has not handed out (yet): well formed for this subscriber and consumer, its number
					// the one the k-th next session will get (st.S = "future<k>"); the consumer identifies itself
					k, _ := strconv.Atoi(st.S[6:])
					n := int64(reflect.ValueOf(chf_context.GetSelf()).Elem().FieldByName("LocalRecordSequenceNumber").Uint()) + int64(k)
					ref = d.supi(st.U) + "-" + st.C + "-" + strconv.FormatInt(n, 10)
					body["nfConsumerIdentification"] = map[string]any{"nFName": st.C, "nodeFunctionality": "SMF"}
				}
				args["nfc"] = st.Nfc
				args["ref"] = ref
				if st.A == "update" {
					flt := st.Fault
					if flt == "" {
						flt = "none"
					}
					args["fault"] = flt
				}
				ab := factory.ChfConfig.Configuration.AbmfDiameter
				good := ab.Port
				if st.Fault == "abmf" {
					ab.Port = deadPort()
				}
				bb, _ := json.Marshal(body)
				// (the reference is one path segment: a consumer escapes it as such)
				r = env.Do("POST", base+"/"+url.PathEscape(ref)+"/"+st.A, bb, nil, 30*time.Second)
				ab.Port = good
				res = httpRes(r)
			}
			// what the consumer may use next: the grant of this answer, per rating group
			for _, us := range st.Usage {
				lastGrant[st.U+"|"+us.Rg] = 0
			}
			if mui, ok := res["mui"].([]any); ok {
				for _, m := range mui {
					mm := m.(map[string]any)
					g := mm["granted"].(int64)
					if g > 0 {
						lastGrant[st.U+"|"+mm["rg"].(string)] = g
					}
				}
			}
		default:
			panic("unknown action " + st.A)
		}
		nts := []any{}
		for _, n := range env.TakeNotifs() {
			rgs := []string{}
			for _, g := range n.Rgs {
				rgs = append(rgs, strconv.Itoa(int(g)))
			}
			nts = append(nts, map[string]any{"path": n.Path, "rgs": rgs})
		}
		res["notifs"] = nts
		// which subscribers' CDR files were (re)written or removed by this step
		filechg := []string{}
		for u, sum := range fileSum() {
			if filesBefore[u] != sum {
				filechg = append(filechg, u)
			}
		}
		sort.Strings(filechg)
		d.emit(map[string]any{
			"trace": b.ID, "seq": seq, "action": st.A, "args": args, "result": res, "filechg": filechg, "state": d.project(b),
		})
		if res["timeout"] == true {
			// the subscriber is wedged; nothing more can be learnt from this behaviour
			break
		}
	}
}

func candTimes(t0, t1 time.Time) []any {
	var out []any
	for t := t0.Truncate(time.Second); !t.After(t1); t = t.Add(time.Second) {
		l := t.In(time.Local)
		out = append(out, []int{l.Year() % 100, int(l.Month()), l.Day(), l.Hour(), l.Minute(), l.Second()})
	}
	return out
}

func httpRes(r HTTPResult) map[string]any {
	res := map[string]any{
		"status": r.Status, "timeout": r.Timeout, "location": r.Location, "bodyEmpty": len(r.Body) == 0,
		"seq": -1, "hasTs": false, "mui": []any{},
	}
	var body map[string]any
	dec := json.NewDecoder(strings.NewReader(r.Body))
	dec.UseNumber()
	if dec.Decode(&body) == nil && body != nil {
		if n, ok := body["invocationSequenceNumber"].(json.Number); ok {
			v, _ := n.Int64()
			res["seq"] = v
		}
		if _, ok := body["invocationTimeStamp"].(string); ok {
			res["hasTs"] = true
		}
		if arr, ok := body["multipleUnitInformation"].([]any); ok {
			var mui []any
			for _, x := range arr {
				m, _ := x.(map[string]any)
				e := map[string]any{"rg": "0", "granted": int64(-1), "fui": false, "trig": []any{}, "vt": int64(0), "thr": int64(0)}
				if n, ok := m["validityTime"].(json.Number); ok {
					v, _ := n.Int64()
					e["vt"] = clamp31(v)
				}
				if n, ok := m["volumeQuotaThreshold"].(json.Number); ok {
					v, _ := n.Int64()
					e["thr"] = clamp31(v)
				}
				if n, ok := m["ratingGroup"].(json.Number); ok {
					e["rg"] = n.String()
				}
				if g, ok := m["grantedUnit"].(map[string]any); ok {
					e["granted"] = int64(0)
					if n, ok := g["totalVolume"].(json.Number); ok {
						v, _ := n.Int64()
						e["granted"] = v
					}
				}
				if f, ok := m["finalUnitIndication"].(map[string]any); ok {
					if a, _ := f["finalUnitAction"].(string); a != "" {
						e["fui"] = true
					}
				}
				if ts, ok := m["triggers"].([]any); ok {
					var tl []any
					for _, t := range ts {
						tm, _ := t.(map[string]any)
						tt, _ := tm["triggerType"].(string)
						// a trigger other than "immediate report, no limit" is rendered with category and limit
						cat, _ := tm["triggerCategory"].(string)
						lim := int64(0)
						if n, ok := tm["volumeLimit"].(json.Number); ok {
							lim, _ = n.Int64()
						}
						if cat != "IMMEDIATE_REPORT" || lim != 0 {
							tt = tt + ":" + cat + ":" + strconv.FormatInt(lim, 10)
						}
						tl = append(tl, tt)
					}
					e["trig"] = tl
				}
				mui = append(mui, e)
			}
			if mui != nil {
				res["mui"] = mui
			}
		}
	}
	return res
}

func rtypeName(t charging_datatype.RequestSubType) string {
	switch t {
	case charging_datatype.REQ_SUBTYPE_RESERVE:
		return "reserve"
	case charging_datatype.REQ_SUBTYPE_DEBIT:
		return "debit"
	}
	return fmt.Sprintf("other%d", int(t))
}

func clamp31(v int64) int64 {
	// TLC integers are 32-bit: values outside are reported as a sentinel so that the judge
	// sees "out of range" instead of a silently wrapped number.
	if v > 2147483647 || v < -2147483647 {
		return -2147483647
	}
	return v
}

// project is the projection of DESIGN.md section 4.1.
func (d *SeqDriver) project(b *Behaviour) map[string]any {
	self := chf_context.GetSelf()
	st := map[string]any{"lrsn": clamp31(int64(self.LocalRecordSequenceNumber))}
	oc := factory.ChfConfig.Configuration
	st["cfg"] = map[string]any{"vl": oc.VolumeLimit, "vlp": oc.VolumeLimitPDU, "qvt": oc.QuotaValidityTime,
		"th": clamp31(int64(oc.VolumeThresholdRate * 1024)), "mqcap": int64(0)}
	if sc := d.scale(b); sc > 1 {
		st["cfg"].(map[string]any)["mqcap"] = (int64(1) << 32) / sc
	}
	acct := map[string]any{}
	for _, a := range b.Accts {
		q, c, ok := d.Env.GetAccount(d.supi(a.U), rgNum(a.Rg))
		if ok {
			qi, err := strconv.ParseInt(q, 10, 64)
			cn, cerr := strconv.Atoi(c)
			if cerr != nil || cn <= 0 {
				cn = -1
			} else if sc := d.scale(b); sc > 1 {
				cn = int(unscale(int64(cn), sc))
				c = strconv.Itoa(cn)
			}
			acct[a.U+"|"+a.Rg] = map[string]any{"u": a.U, "g": a.Rg, "quota": unscale(qi, d.scale(b)), "cost": c, "costn": cn, "num": err == nil}
		}
	}
	st["acct"] = acct
	ues := map[string]any{}
	for _, u := range b.Ues {
		ue, ok := self.ChfUeFindBySupi(d.supi(u))
		if !ok {
			ues[u] = map[string]any{"known": false}
			continue
		}
		rgs := map[string]any{}
		for rg, t := range ue.RatingType {
			rgs[strconv.Itoa(int(rg))] = map[string]any{
				"rtype": rtypeName(t), "reserved": unscale(ue.ReservedQuota[rg], d.scale(b)),
				"ucost": unscale(int64(ue.UnitCost[rg]), d.scale(b)), "reqnum": clamp31(int64(ue.AcctRequestNum[rg])),
			}
		}
		idx := map[*cdrType.CHFRecord]int{}
		recs := []any{}
		for i, r := range ue.Records {
			idx[r] = i + 1
			recs = append(recs, projRecord(r))
		}
		cdr := map[string]any{}
		for ref, r := range ue.Cdr {
			cdr[ref] = idx[r] // 0: the record is not in Records
		}
		ues[u] = map[string]any{
			"known": true, "rg": rgs, "notify": ue.NotifyUri, "recs": recs, "cdr": cdr,
			"lim": map[string]any{"vl": ue.VolumeLimit, "vlp": ue.VolumeLimitPDU, "qvt": ue.QuotaValidityTime,
				"th": clamp31(int64(ue.VolumeThresholdRate * 1024))},
			"file": FileSummary("/tmp/" + d.supi(u) + ".cdr"),
		}
	}
	st["ue"] = ues
	return st
}

// plmnDigits reads a PLMN identity (three octets of BCD digits d1..d6, low nibble first: MCC1 MCC2 MCC3, then a filler and
// two MNC digits, or three MNC digits) back into "mcc/mnc"; written from the digit layout, not from the repository's encoder.
func plmnDigits(b []byte) string {
	if len(b) != 3 {
		return fmt.Sprintf("?%d octets", len(b))
	}
	d := []byte{b[0] & 15, b[0] >> 4, b[1] & 15, b[1] >> 4, b[2] & 15, b[2] >> 4}
	ch := func(x byte) string {
		if x < 10 {
			return string('0' + x)
		}
		return "x"
	}
	s := ch(d[0]) + ch(d[1]) + ch(d[2]) + "/"
	if d[3] == 15 {
		return s + ch(d[4]) + ch(d[5])
	}
	return s + ch(d[3]) + ch(d[4]) + ch(d[5])
}

func projRecord(r *cdrType.CHFRecord) map[string]any {
	out := map[string]any{
		"ref": "", "hasRef": false, "lrsn": -1, "chid": -1, "consumer": "", "cause": -1, "rsn": -1,
		"subscriber": "", "subtype": -1, "conts": []any{}, "upfs": []any{}, "berLen": -1, "optime": []any{}, "pad": 0, "plmn": "",
	}
	if r == nil || r.ChargingFunctionRecord == nil {
		return out
	}
	c := r.ChargingFunctionRecord
	if c.ChargingSessionIdentifier != nil {
		out["ref"] = string(c.ChargingSessionIdentifier.Value)
		out["hasRef"] = true
	}
	if c.LocalRecordSequenceNumber != nil {
		out["lrsn"] = clamp31(c.LocalRecordSequenceNumber.Value)
	}
	if c.ChargingID != nil {
		out["chid"] = clamp31(c.ChargingID.Value)
	}
	if c.NFunctionConsumerInformation.NetworkFunctionName != nil {
		out["consumer"] = string(c.NFunctionConsumerInformation.NetworkFunctionName.Value)
	}
	if p := c.NFunctionConsumerInformation.NetworkFunctionPLMNIdentifier; p != nil {
		out["plmn"] = plmnDigits(p.Value)
	}
	out["cause"] = clamp31(c.CauseForRecClosing.Value)
	if c.RecordSequenceNumber != nil {
		out["rsn"] = clamp31(*c.RecordSequenceNumber)
	}
	if c.SubscriberIdentifier != nil {
		out["subscriber"] = string(c.SubscriberIdentifier.SubscriptionIDData)
		out["subtype"] = clamp31(int64(c.SubscriberIdentifier.SubscriptionIDType.Value))
	}
	if c.ServiceSpecificationInformation != nil {
		out["pad"] = len(*c.ServiceSpecificationInformation)
	}
	conts := []any{}
	upfs := []any{}
	for _, mu := range c.ListOfMultipleUnitUsage {
		if mu.UPFID != nil {
			upfs = append(upfs, string(mu.UPFID.Value))
		} else {
			upfs = append(upfs, "")
		}
		for _, uc := range mu.UsedUnitContainers {
			v := func(p *cdrType.DataVolumeOctets) int64 {
				if p == nil {
					return -1
				}
				return clamp31(p.Value)
			}
			lsn := int64(-1)
			if uc.LocalSequenceNumber != nil {
				lsn = clamp31(uc.LocalSequenceNumber.Value)
			}
			ssu := int64(-1)
			if uc.ServiceSpecificUnits != nil {
				ssu = clamp31(*uc.ServiceSpecificUnits)
			}
			conts = append(conts, []int64{
				lsn, clamp31(mu.RatingGroup.Value), v(uc.DataTotalVolume), v(uc.DataVolumeUplink), v(uc.DataVolumeDownlink), ssu,
			})
		}
	}
	out["conts"] = conts
	out["upfs"] = upfs
	ot := []any{}
	for _, x := range c.RecordOpeningTime.Value {
		ot = append(ot, int(x))
	}
	out["optime"] = ot
	func() {
		defer func() { _ = recover() }()
		if bs, err := asn.BerMarshalWithParams(&r, "explicit,choice"); err == nil {
			out["berLen"] = len(bs)
		}
	}()
	return out
}
