package verifharness

// A harness-owned Diameter client (go-diameter state machine over TLS) used to talk to the
// repository's account-balance and rating servers exactly as a peer would.

import (
	"fmt"
	"math/big"
	"sync"
	"time"

	"github.com/fiorix/go-diameter/diam"
	"github.com/fiorix/go-diameter/diam/avp"
	"github.com/fiorix/go-diameter/diam/datatype"
	"github.com/fiorix/go-diameter/diam/dict"
	"github.com/fiorix/go-diameter/diam/sm"
	"github.com/fiorix/go-diameter/diam/sm/smpeer"
)

type DiamClient struct {
	addr, pem, key string
	answerCmd      string
	mux            *sm.StateMachine
	cli            *sm.Client
	ch             chan *diam.Message
	mu             sync.Mutex
	conn           diam.Conn
	Realm, Host    datatype.DiameterIdentity
}

func NewDiamClient(addr, pem, key, answerCmd string) *DiamClient {
	d := &DiamClient{addr: addr, pem: pem, key: key, answerCmd: answerCmd, ch: make(chan *diam.Message, 64)}
	d.mux = sm.New(&sm.Settings{
		OriginHost: "vfclient", OriginRealm: "go-diameter", VendorID: 13, ProductName: "go-diameter",
		OriginStateID: datatype.Unsigned32(time.Now().Unix()), FirmwareRevision: 1,
		HostIPAddresses: []datatype.Address{datatype.Address("127.0.0.1")},
	})
	d.mux.HandleFunc(answerCmd, func(c diam.Conn, m *diam.Message) { d.ch <- m })
	go func() {
		for range d.mux.ErrorReports() {
		}
	}()
	d.cli = &sm.Client{
		Dict: dict.Default, Handler: d.mux, MaxRetransmits: 1, RetransmitInterval: time.Second,
		EnableWatchdog: false,
		AuthApplicationID: []*diam.AVP{
			diam.NewAVP(avp.AuthApplicationID, avp.Mbit, 0, datatype.Unsigned32(4)),
		},
	}
	return d
}

func (d *DiamClient) connect() error {
	if d.conn != nil {
		return nil
	}
	c, err := d.cli.DialNetworkTLS("tcp", d.addr, d.pem, d.key)
	if err != nil {
		return err
	}
	meta, ok := smpeer.FromContext(c.Context())
	if !ok {
		c.Close()
		return fmt.Errorf("no peer metadata")
	}
	d.Realm, d.Host = meta.OriginRealm, meta.OriginHost
	d.conn = c
	return nil
}

func (d *DiamClient) Close() {
	if d.conn != nil {
		d.conn.Close()
		d.conn = nil
	}
}

// Exchange marshals req into a request of command cmd, sends it and waits for the answer.
// prep receives the peer identity so that Destination-* can be filled in.
func (d *DiamClient) Exchange(cmd uint32, app uint32, build func(realm, host datatype.DiameterIdentity) any,
	wait time.Duration,
) (*diam.Message, string) {
	d.mu.Lock()
	defer d.mu.Unlock()
	for len(d.ch) > 0 {
		<-d.ch
	}
	if err := d.connect(); err != nil {
		return nil, "dial: " + err.Error()
	}
	m := diam.NewRequest(cmd, app, dict.Default)
	if err := m.Marshal(build(d.Realm, d.Host)); err != nil {
		return nil, "marshal: " + err.Error()
	}
	if _, err := m.WriteTo(d.conn); err != nil {
		d.Close()
		return nil, "write: " + err.Error()
	}
	closed := d.conn.(diam.CloseNotifier).CloseNotify()
	select {
	case a := <-d.ch:
		return a, ""
	case <-closed:
		d.Close()
		return nil, "closed"
	case <-time.After(wait):
		return nil, "noanswer"
	}
}

// ExchangePair writes two requests back to back on the connection -- the second without waiting for the answer to the first --
// and collects the answers in the order they arrive.
func (d *DiamClient) ExchangePair(cmd uint32, app uint32, buildA, buildB func(realm, host datatype.DiameterIdentity) any,
	wait time.Duration,
) ([]*diam.Message, string) {
	d.mu.Lock()
	defer d.mu.Unlock()
	for len(d.ch) > 0 {
		<-d.ch
	}
	if err := d.connect(); err != nil {
		return nil, "dial: " + err.Error()
	}
	for _, build := range []func(realm, host datatype.DiameterIdentity) any{buildA, buildB} {
		m := diam.NewRequest(cmd, app, dict.Default)
		if err := m.Marshal(build(d.Realm, d.Host)); err != nil {
			return nil, "marshal: " + err.Error()
		}
		if _, err := m.WriteTo(d.conn); err != nil {
			d.Close()
			return nil, "write: " + err.Error()
		}
	}
	var out []*diam.Message
	deadline := time.After(wait)
	for len(out) < 2 {
		select {
		case a := <-d.ch:
			out = append(out, a)
		case <-deadline:
			return out, "noanswer"
		}
	}
	return out, ""
}

// ---- AVP access by dictionary name, independent of the repository's struct tags ----

func avpPath(m *diam.Message, path ...any) *diam.AVP {
	as, err := m.FindAVPsWithPath(path, dict.UndefinedVendorID)
	if err != nil || len(as) == 0 {
		return nil
	}
	return as[0]
}

func avpU64(a *diam.AVP) (uint64, bool) {
	if a == nil {
		return 0, false
	}
	switch v := a.Data.(type) {
	case datatype.Unsigned64:
		return uint64(v), true
	case datatype.Unsigned32:
		return uint64(v), true
	case datatype.Enumerated:
		return uint64(uint32(v)), true
	case datatype.Integer32:
		return uint64(int64(v)), true
	case datatype.Integer64:
		return uint64(v), true
	}
	return 0, false
}

func avpI64(a *diam.AVP) (int64, bool) {
	if a == nil {
		return 0, false
	}
	switch v := a.Data.(type) {
	case datatype.Integer64:
		return int64(v), true
	case datatype.Integer32:
		return int64(v), true
	case datatype.Unsigned32:
		return int64(v), true
	case datatype.Enumerated:
		return int64(v), true
	case datatype.Unsigned64:
		return int64(v), true
	}
	return 0, false
}

func avpStr(a *diam.AVP) (string, bool) {
	if a == nil {
		return "", false
	}
	switch v := a.Data.(type) {
	case datatype.UTF8String:
		return string(v), true
	case datatype.OctetString:
		return string(v), true
	case datatype.DiameterIdentity:
		return string(v), true
	}
	return "", false
}

// ---- Big values for TLC (little-endian base-2^15 limbs) ----

func LimbsOfBig(n *big.Int) []int {
	out := []int{}
	x := new(big.Int).Abs(n)
	base := big.NewInt(32768)
	r := new(big.Int)
	for x.Sign() > 0 {
		x.DivMod(x, base, r)
		out = append(out, int(r.Int64()))
	}
	return out
}

func LimbsU(v uint64) []int { return LimbsOfBig(new(big.Int).SetUint64(v)) }

func SignedBig(n *big.Int) map[string]any {
	return map[string]any{"neg": n.Sign() < 0, "mag": LimbsOfBig(n)}
}

func BigOfLimbs(l []int) *big.Int {
	n := new(big.Int)
	for i := len(l) - 1; i >= 0; i-- {
		n.Mul(n, big.NewInt(32768))
		n.Add(n, big.NewInt(int64(l[i])))
	}
	return n
}
