package verifharness

import "fmt"

// Modes maps a vfh sub-command to its driver.
var Modes = map[string]func(args []string) error{}

func init() {
	Modes["seq"] = func(a []string) error {
		if len(a) != 3 {
			return fmt.Errorf("seq <prefix> <behaviours.json> <out.ndjson>")
		}
		env, err := StartEnv(EnvOpts{})
		if err != nil {
			return err
		}
		defer env.Close()
		return RunSeq(env, a[0], a[1], a[2])
	}
	Modes["rating"] = func(a []string) error {
		if len(a) != 3 {
			return fmt.Errorf("rating <prefix> <cases.json> <out.ndjson>")
		}
		env, err := StartEnv(EnvOpts{NoAbmf: true})
		if err != nil {
			return err
		}
		defer env.Close()
		return RunRating(env, a[0], a[1], a[2])
	}
	Modes["http"] = func(a []string) error {
		if len(a) != 3 {
			return fmt.Errorf("http <prefix> <cases.json> <out.ndjson>")
		}
		env, err := StartEnv(EnvOpts{})
		if err != nil {
			return err
		}
		defer env.Close()
		return RunHTTP(env, a[0], a[1], a[2])
	}
	Modes["router"] = func(a []string) error {
		if len(a) != 3 {
			return fmt.Errorf("router <prefix> <cases.json> <out.ndjson>")
		}
		env, err := StartEnv(EnvOpts{})
		if err != nil {
			return err
		}
		defer env.Close()
		return RunRouter(env, a[0], a[1], a[2])
	}
	Modes["diammsg"] = func(a []string) error {
		if len(a) != 3 {
			return fmt.Errorf("diammsg <prefix> <vectors.json> <out.ndjson>")
		}
		Quiet()
		return RunDiamMsg(a[1], a[2])
	}
	Modes["cdrfile"] = func(a []string) error {
		if len(a) != 3 {
			return fmt.Errorf("cdrfile <prefix> <cases.json> <out.ndjson>")
		}
		Quiet()
		return RunCdrFile(a[1], a[2])
	}
	Modes["ber"] = func(a []string) error {
		if len(a) != 3 {
			return fmt.Errorf("ber <prefix> <cases.json> <out.ndjson>")
		}
		Quiet()
		return RunBer(a[1], a[2])
	}
	Modes["life"] = func(a []string) error {
		if len(a) != 3 {
			return fmt.Errorf("life <prefix> <cases.json> <out.ndjson>")
		}
		return RunLife(a[0], a[1], a[2])
	}
	Modes["lifechild"] = func(a []string) error {
		if len(a) != 4 {
			return fmt.Errorf("lifechild <cgf> <answer> <traffic> <tag>")
		}
		return LifeChild(a[0], a[1], a[2], a[3])
	}
	Modes["cgf"] = func(a []string) error {
		if len(a) != 3 {
			return fmt.Errorf("cgf <prefix> <cases.json> <out.ndjson>")
		}
		Quiet()
		return RunCgf(a[0], a[1], a[2])
	}
	Modes["diamchf"] = func(a []string) error {
		if len(a) != 3 {
			return fmt.Errorf("diamchf <prefix> <vectors.json> <out.ndjson>")
		}
		Quiet()
		return RunDiamChf(a[0], a[1], a[2])
	}
	Modes["berchild"] = func(a []string) error {
		if len(a) != 3 {
			return fmt.Errorf("berchild <target> <params> <file>")
		}
		Quiet()
		return BerChild(a[0], a[1], a[2])
	}
	Modes["config"] = func(a []string) error {
		if len(a) != 3 {
			return fmt.Errorf("config <prefix> <cases.json> <out.ndjson>")
		}
		return RunConfig(a[0], a[1], a[2])
	}
	Modes["cfgstart"] = func(a []string) error {
		if len(a) != 3 {
			return fmt.Errorf("cfgstart <config.yaml> <supi> <tls key log path or empty>")
		}
		return CfgStart(a[0], a[1], a[2])
	}
	Modes["link"] = func(a []string) error {
		if len(a) != 3 {
			return fmt.Errorf("link <prefix> <cases.json> <out.ndjson>")
		}
		return RunLink(a[0], a[1], a[2])
	}
	Modes["leak"] = func(a []string) error {
		if len(a) != 3 {
			return fmt.Errorf("leak <prefix> <cases.json> <out.ndjson>")
		}
		return RunLeak(a[0], a[1], a[2])
	}
	Modes["abmf"] = func(a []string) error {
		if len(a) != 3 {
			return fmt.Errorf("abmf <prefix> <behaviours.json> <out.ndjson>")
		}
		env, err := StartEnv(EnvOpts{NoRating: true})
		if err != nil {
			return err
		}
		defer env.Close()
		return RunAbmf(env, a[0], a[1], a[2])
	}
}

func init() {
	Modes["conc"] = func(a []string) error {
		if len(a) != 3 {
			return fmt.Errorf("conc <prefix> <cases.json> <out.ndjson>")
		}
		env, err := StartEnv(EnvOpts{})
		if err != nil {
			return err
		}
		defer env.Close()
		return RunConc(env, a[0], a[1], a[2])
	}
}

func init() {
	Modes["nrf"] = func(a []string) error {
		if len(a) != 3 {
			return fmt.Errorf("nrf <prefix> <cases.json> <out.ndjson>")
		}
		return RunNrf(a[0], a[1], a[2])
	}
}
