package verifharness

// Driver for C08: service-usage requests over a real TLS Diameter connection to the server started
// by pkg/rf.OpenServer, plus the CHF-side tariff decoding (processor.getUnitCost) against it.

import (
	"go.mongodb.org/mongo-driver/bson"
	"bufio"
	"encoding/json"
	"fmt"
	"os"
	"strings"
	"sync"
	"time"

	"github.com/fiorix/go-diameter/diam"
	"github.com/fiorix/go-diameter/diam/datatype"

	charging_code "github.com/free5gc/chf/ccs_diameter/code"
	charging_datatype "github.com/free5gc/chf/ccs_diameter/datatype"
	chf_context "github.com/free5gc/chf/internal/context"
	"github.com/free5gc/chf/internal/sbi/processor"
)

type RatingCase struct {
	ID       string   `json:"id"`
	Cost     []string `json:"cost"`
	Sub      string   `json:"sub"`
	Consumed []int    `json:"consumed"`
	Quota    []int    `json:"quota"`
	// Batch: the member cases are sent at the same moment, each over its own connection and for its own
	// subscriber (a rating server serves many subscribers at once); every member is then judged like a single case
	Batch  []RatingCase `json:"batch"`
	Rounds int          `json:"rounds"`
	// Flip: the stored unit cost alternates between these two values on every read of the subscriber's charging data
	// (a tariff edited while requests are served); small plain numbers: Used / Money are the request's amounts
	Flip  []string `json:"flip"`
	Used  uint64   `json:"used"`
	Money uint64   `json:"money"`
	// Pause: milliseconds of silence on the (kept) connection before the request is sent: a peer may hold its connection
	// open and stay quiet for a while (this client sends no watchdog requests)
	Pause int `json:"pause"`
}

var subNum = map[string]charging_datatype.RequestSubType{
	"aoc": charging_datatype.REQ_SUBTYPE_AOC, "reserve": charging_datatype.REQ_SUBTYPE_RESERVE,
	"debit": charging_datatype.REQ_SUBTYPE_DEBIT, "release": charging_datatype.REQ_SUBTYPE_RELEASE,
}

func RunRating(env *Env, prefix, in, out string) error {
	raw, err := os.ReadFile(in)
	if err != nil {
		return err
	}
	var cases []RatingCase
	if err = json.Unmarshal(raw, &cases); err != nil {
		return err
	}
	f, err := os.Create(out)
	if err != nil {
		return err
	}
	defer f.Close()
	w := bufio.NewWriterSize(f, 1<<20)
	defer w.Flush()
	cli := NewDiamClient(fmt.Sprintf("127.0.0.1:%d", env.RfPort), env.Pem, env.Key, "SUA")
	defer cli.Close()
	supi := "imsi-" + prefix + "1"
	var askRg func(cli *DiamClient, supi string, rg uint32, sub string, consumed, quota uint64, wait time.Duration) map[string]any
	askAs := func(cli *DiamClient, supi string, sub string, consumed, quota uint64) map[string]any {
		return askRg(cli, supi, 1, sub, consumed, quota, 1000*time.Millisecond)
	}
	askRg = func(cli *DiamClient, supi string, rg uint32, sub string, consumed, quota uint64, wait time.Duration) map[string]any {
		ans, why := cli.Exchange(charging_code.ServiceUsageMessage, charging_code.Re_interface,
			func(realm, host datatype.DiameterIdentity) any {
				return &charging_datatype.ServiceUsageRequest{
					SessionId: "vf", OriginHost: "vfclient", OriginRealm: "go-diameter", DestinationRealm: realm, DestinationHost: host,
					ActualTime: datatype.Time(time.Now()), UserName: "CHF",
					SubscriptionId: &charging_datatype.SubscriptionId{
						SubscriptionIdType: charging_datatype.END_USER_IMSI, SubscriptionIdData: datatype.UTF8String(supi[5:]),
					},
					ServiceRating: &charging_datatype.ServiceRating{
						ServiceIdentifier: datatype.Unsigned32(rg), RequestSubType: subNum[sub],
						ConsumedUnits: datatype.Unsigned32(consumed), MonetaryQuota: datatype.Unsigned32(quota),
					},
				}
			}, wait)
		res := map[string]any{"got": ans != nil, "why": why, "price": []int{}, "allowed": []int{}}
		if ans != nil {
			if v, ok := avpU64(avpPath(ans, "Service-Rating", "Price")); ok {
				res["price"] = LimbsU(v)
			}
			if v, ok := avpU64(avpPath(ans, "Service-Rating", "AllowedUnits")); ok {
				res["allowed"] = LimbsU(v)
			}
		}
		return res
	}
	ask := func(sub string, consumed, quota uint64) map[string]any { return askAs(cli, supi, sub, consumed, quota) }
	seq := 0
	for _, c := range cases {
		if len(c.Batch) == 0 {
			continue
		}
		n := len(c.Batch)
		clis := make([]*DiamClient, n)
		supis := make([]string, n)
		env.ResetState(0)
		for k, m := range c.Batch {
			clis[k] = NewDiamClient(fmt.Sprintf("127.0.0.1:%d", env.RfPort), env.Pem, env.Key, "SUA")
			supis[k] = fmt.Sprintf("imsi-%s%02d", prefix, k+10)
			env.PutAccount(supis[k], 1, "1000", strings.Join(m.Cost, ""))
		}
		rounds := c.Rounds
		if rounds <= 0 {
			rounds = 1
		}
		for r := 0; r < rounds; r++ {
			results := make([]map[string]any, n)
			start := make(chan struct{})
			var wg sync.WaitGroup
			for k, m := range c.Batch {
				wg.Add(1)
				go func(k int, m RatingCase) {
					defer wg.Done()
					<-start
					results[k] = askAs(clis[k], supis[k], m.Sub, BigOfLimbs(m.Consumed).Uint64(), BigOfLimbs(m.Quota).Uint64())
				}(k, m)
			}
			close(start)
			wg.Wait()
			for k, m := range c.Batch {
				res := results[k]
				res["probe"] = askAs(clis[k], supis[k], "debit", 1, 0)
				res["client"] = map[string]any{"got": false, "cost": []int{}, "skipped": true}
				b, _ := json.Marshal(map[string]any{
					"trace": c.ID, "seq": seq, "action": "sur", "concurrent": true,
					"args": map[string]any{"cost": m.Cost, "sub": m.Sub, "consumed": m.Consumed, "quota": m.Quota}, "result": res,
				})
				seq++
				_, _ = w.Write(b)
				_ = w.WriteByte('\n')
			}
		}
		for _, cl := range clis {
			cl.Close()
		}
	}
	// requests the statement does not cover -- a subscriber without charging data, a rating group the subscriber has no
	// tariff for -- are part of every real history; they are interleaved here (own connection, short wait: the server
	// is silent for them) and must not change what requests for known subscribers get
	cliU := NewDiamClient(fmt.Sprintf("127.0.0.1:%d", env.RfPort), env.Pem, env.Key, "SUA")
	defer cliU.Close()
	for i, c := range cases {
		if len(c.Flip) != 2 {
			continue
		}
		env.ResetState(0)
		env.PutAccount(supi, 1, "1000", c.Flip[0])
		reads := 0
		env.Mongo.AfterFind = func(ns string, doc bson.M) {
			if doc["ueId"] == supi {
				reads++
				doc["unitCost"] = c.Flip[reads%2]
			}
		}
		var ans *diam.Message
		ans, _ = cli.Exchange(charging_code.ServiceUsageMessage, charging_code.Re_interface,
			func(realm, host datatype.DiameterIdentity) any {
				return &charging_datatype.ServiceUsageRequest{
					SessionId: "vf", OriginHost: "vfclient", OriginRealm: "go-diameter", DestinationRealm: realm, DestinationHost: host,
					ActualTime: datatype.Time(time.Now()), UserName: "CHF",
					SubscriptionId: &charging_datatype.SubscriptionId{
						SubscriptionIdType: charging_datatype.END_USER_IMSI, SubscriptionIdData: datatype.UTF8String(supi[5:]),
					},
					ServiceRating: &charging_datatype.ServiceRating{
						ServiceIdentifier: 1, RequestSubType: subNum[c.Sub],
						ConsumedUnits: datatype.Unsigned32(c.Used), MonetaryQuota: datatype.Unsigned32(c.Money),
					},
				}
			}, 1000*time.Millisecond)
		env.Mongo.AfterFind = nil
		res := map[string]any{"got": ans != nil, "price": -1, "allowed": -1, "digits": -1, "exp": 0, "reads": reads}
		if ans != nil {
			if v, ok := avpU64(avpPath(ans, "Service-Rating", "Price")); ok {
				res["price"] = v
			}
			if v, ok := avpU64(avpPath(ans, "Service-Rating", "AllowedUnits")); ok {
				res["allowed"] = v
			}
			if v, ok := avpI64(avpPath(ans, "Service-Rating", "MonetaryTariff", "Rate-Element", "Unit-Cost", "Value-Digits")); ok {
				res["digits"] = v
			}
			if v, ok := avpI64(avpPath(ans, "Service-Rating", "MonetaryTariff", "Rate-Element", "Unit-Cost", "Exponent")); ok {
				res["exp"] = v
			}
		}
		b, _ := json.Marshal(map[string]any{"trace": c.ID, "seq": i, "action": "flip",
			"args": map[string]any{"flip": c.Flip, "sub": c.Sub, "used": c.Used, "money": c.Money}, "result": res})
		_, _ = w.Write(b)
		_ = w.WriteByte('\n')
	}
	for i, c := range cases {
		if len(c.Batch) > 0 || len(c.Flip) == 2 {
			continue
		}
		env.ResetState(0)
		env.PutAccount(supi, 1, "1000", strings.Join(c.Cost, ""))
		if c.Pause > 0 {
			time.Sleep(time.Duration(c.Pause) * time.Millisecond)
		}
		if i%3 != 2 && c.Pause == 0 {
			who, rg := "imsi-"+prefix+"99", uint32(1)
			if i%3 == 1 {
				who, rg = supi, 77
			}
			nres := askRg(cliU, who, rg, []string{"debit", "reserve", "aoc", "release"}[(i/3)%4], 1, 10, 40*time.Millisecond)
			b, _ := json.Marshal(map[string]any{"trace": c.ID, "seq": i, "action": "noise", "unknown": []string{"subscriber", "ratinggroup"}[i%3], "got": nres["got"]})
			_, _ = w.Write(b)
			_ = w.WriteByte('\n')
		}
		res := ask(c.Sub, BigOfLimbs(c.Consumed).Uint64(), BigOfLimbs(c.Quota).Uint64())
		res["probe"] = ask("debit", 1, 0)
		// the CHF's own decoding of the tariff, against the same server
		client := map[string]any{"got": false, "cost": []int{}}
		func() {
			defer func() {
				if r := recover(); r != nil {
					client["panic"] = fmt.Sprint(r)
				}
			}()
			ue, err := chf_context.GetSelf().NewCHFUe(supi)
			if err != nil {
				return
			}
			sur := &charging_datatype.ServiceUsageRequest{
				SessionId: "vfc", OriginHost: "client", OriginRealm: "go-diameter", ActualTime: datatype.Time(time.Now()), UserName: "CHF",
				SubscriptionId: &charging_datatype.SubscriptionId{
					SubscriptionIdType: charging_datatype.END_USER_IMSI, SubscriptionIdData: datatype.UTF8String(supi[5:]),
				},
			}
			done := make(chan uint32, 1)
			go func() {
				defer func() { _ = recover() }()
				v, ok := processor.VerifGetUnitCost(ue, 1, sur)
				if !ok {
					client["unavailable"] = true
				}
				done <- v
			}()
			select {
			case v := <-done:
				client["got"] = true
				client["cost"] = LimbsU(uint64(v))
			case <-time.After(7 * time.Second):
			}
		}()
		res["client"] = client
		b, _ := json.Marshal(map[string]any{
			"trace": c.ID, "seq": i, "action": "sur",
			"args": map[string]any{"cost": c.Cost, "sub": c.Sub, "consumed": c.Consumed, "quota": c.Quota}, "result": res,
		})
		_, _ = w.Write(b)
		_ = w.WriteByte('\n')
	}
	_ = diam.Success
	return nil
}
