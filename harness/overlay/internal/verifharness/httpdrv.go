package verifharness

// Driver for C11 (and raw HTTP scenarios): each case is a list of raw requests sent through the
// real gin router in-process; every request gets a deadline, a miss is recorded as a result.

import (
	"bufio"
	"encoding/json"
	"os"
	"strings"
	"time"

	chf_context "github.com/free5gc/chf/internal/context"
)

type RawReq struct {
	Role   string `json:"role"` // "prior" | "probe" | "follow"
	Method string `json:"method"`
	Path   string `json:"path"`
	Body   string `json:"body"`
}

type HTTPCase struct {
	ID    string         `json:"id"`
	Shape map[string]any `json:"shape"`
	Accts []Acct         `json:"accts"`
	Supis []string       `json:"supis"` // literal subscriber ids that get an account for rating group 1
	Reqs  []RawReq       `json:"reqs"`
}

func RunHTTP(env *Env, prefix, in, out string) error {
	raw, err := os.ReadFile(in)
	if err != nil {
		return err
	}
	var cases []HTTPCase
	if err = json.Unmarshal(raw, &cases); err != nil {
		return err
	}
	f, err := os.Create(out)
	if err != nil {
		return err
	}
	defer f.Close()
	w := bufio.NewWriterSize(f, 1<<20)
	defer w.Flush()
	d := &SeqDriver{Env: env, Prefix: prefix}
	base := "/nchf-convergedcharging/v3"
	for ci, c := range cases {
		env.ResetState(0)
		for _, a := range c.Accts {
			env.PutAccount(d.supi(a.U), rgNum(a.Rg), "1000", a.Cost)
		}
		for _, sp := range c.Supis {
			env.PutAccount(strings.ReplaceAll(sp, "{P}", prefix), 1, "1000", "1")
		}
		ref := "no-such-ref"
		var results []any
		sub := func(s string) string {
			if len(prefix) >= 3 {
				s = strings.ReplaceAll(s, "{P3}", prefix[:3])
			}
			s = strings.ReplaceAll(s, "{P}", prefix)
			s = strings.ReplaceAll(s, "{REF}", ref)
			s = strings.ReplaceAll(s, "{SINK}", env.SinkURL)
			return s
		}
		wedged := false
		for _, r := range c.Reqs {
			if wedged {
				results = append(results, map[string]any{"role": r.Role, "status": -2, "timeout": false, "skipped": true, "problem": false})
				continue
			}
			dl := 8 * time.Second
			hr := env.Do(r.Method, base+sub(r.Path), []byte(sub(r.Body)), nil, dl)
			pref := chf_context.GetSelf().Url + base + "/chargingdata/"
			if hr.Status == 201 && strings.HasPrefix(hr.Location, pref) {
				ref = hr.Location[len(pref):]
			}
			var pd map[string]any
			problem := json.Unmarshal([]byte(hr.Body), &pd) == nil && pd != nil
			results = append(results, map[string]any{"role": r.Role, "status": hr.Status, "timeout": hr.Timeout, "skipped": false, "problem": problem})
			if hr.Timeout && r.Role == "prior" {
				wedged = true
			}
		}
		env.TakeNotifs()
		b, _ := json.Marshal(map[string]any{"trace": c.ID, "seq": ci, "action": "case", "shape": c.Shape, "results": results})
		_, _ = w.Write(b)
		_ = w.WriteByte('\n')
		// forget the subscribers of this case (a wedged subscriber object is simply dropped)
		for _, u := range []string{"1", "2"} {
			_ = os.Remove("/tmp/" + d.supi(u) + ".cdr")
		}
	}
	return nil
}
