package verifharness

// Driver for the application life cycle (spec/AppLife.tla; beyond the listed properties): a child process builds the
// real service.ChfApp from a configuration, runs Start(), optionally serves one session, calls Terminate() and reports
// how the process wound down: did Start() return, which listeners are still open, what the NRF was asked to delete,
// whether the CDR files were removed.

import (
	"bufio"
	"context"
	"encoding/json"
	"fmt"
	"net"
	"net/http"
	"os"
	"os/exec"
	"path/filepath"
	"strings"
	"sync"
	"time"

	"github.com/free5gc/openapi/models"
	"golang.org/x/net/http2"
	"golang.org/x/net/http2/h2c"

	"github.com/free5gc/chf/pkg/factory"
	"github.com/free5gc/chf/pkg/service"
)

type LifeCase struct {
	ID      string         `json:"id"`
	Cgf     bool           `json:"cgf"`
	Answer  string         `json:"answer"`
	Traffic bool           `json:"traffic"`
	Expect  map[string]any `json:"expect"`
}

func RunLife(prefix, in, out string) error {
	raw, err := os.ReadFile(in)
	if err != nil {
		return err
	}
	var cases []LifeCase
	if err = json.Unmarshal(raw, &cases); err != nil {
		return err
	}
	f, err := os.Create(out)
	if err != nil {
		return err
	}
	defer f.Close()
	w := bufio.NewWriterSize(f, 1<<16)
	defer w.Flush()
	self, _ := os.Executable()
	for ci, c := range cases {
		ctx, cancel := context.WithTimeout(context.Background(), 90*time.Second)
		cmd := exec.CommandContext(ctx, self, "lifechild", fmt.Sprint(c.Cgf), c.Answer, fmt.Sprint(c.Traffic), prefix+fmt.Sprint(ci))
		var stdout, stderr strings.Builder
		cmd.Stdout, cmd.Stderr = &stdout, &stderr
		runErr := cmd.Run()
		timedOut := ctx.Err() == context.DeadlineExceeded
		cancel()
		obs := map[string]any{"ran": false}
		for _, l := range strings.Split(stdout.String(), "\n") {
			if strings.HasPrefix(l, "LIFE ") {
				_ = json.Unmarshal([]byte(l[5:]), &obs)
				obs["ran"] = true
			}
		}
		tail := stderr.String()
		if len(tail) > 400 {
			tail = tail[len(tail)-400:]
		}
		obs["childError"] = runErr != nil
		obs["childTimeout"] = timedOut
		b, _ := json.Marshal(map[string]any{"trace": c.ID, "seq": ci, "action": "life", "cgf": c.Cgf, "answer": c.Answer, "traffic": c.Traffic,
			"expect": c.Expect, "observed": obs, "detail": tail})
		_, _ = w.Write(b)
		_ = w.WriteByte('\n')
	}
	return nil
}

func portOpen(port int) bool {
	c, err := net.DialTimeout("tcp", fmt.Sprintf("127.0.0.1:%d", port), 300*time.Millisecond)
	if err != nil {
		return false
	}
	_ = c.Close()
	return true
}

// LifeChild runs in the child process.
func LifeChild(cgfOn, answer, traffic, tag string) error {
	Quiet()
	fm, url, err := StartFakeMongo()
	if err != nil {
		return err
	}
	dir, err := os.MkdirTemp(os.Getenv("VF_TMP"), "life")
	if err != nil {
		return err
	}
	defer os.RemoveAll(dir)
	pem, key := GenCert(dir)
	// fake NRF
	var mu sync.Mutex
	var log []string
	putID := ""
	ln, err := net.Listen("tcp", "127.0.0.1:0")
	if err != nil {
		return err
	}
	nrfURL := "http://" + ln.Addr().String()
	h := http.HandlerFunc(func(wr http.ResponseWriter, r *http.Request) {
		mu.Lock()
		log = append(log, r.Method+" "+r.URL.Path)
		mu.Unlock()
		switch r.Method {
		case "PUT":
			mu.Lock()
			putID = r.URL.Path[strings.LastIndex(r.URL.Path, "/")+1:]
			mu.Unlock()
			profile := map[string]any{"nfInstanceId": putID, "nfType": "CHF", "nfStatus": "REGISTERED"}
			wr.Header().Set("Content-Type", "application/json")
			if answer == "201" {
				wr.Header().Set("Location", nrfURL+"/nnrf-nfm/v1/nf-instances/assigned-by-nrf")
				wr.WriteHeader(201)
			} else {
				wr.WriteHeader(200)
			}
			_ = json.NewEncoder(wr).Encode(profile)
		case "DELETE":
			wr.WriteHeader(204)
		default:
			wr.WriteHeader(404)
		}
	})
	srvNrf := &http.Server{Handler: h2c.NewHandler(h, &http2.Server{}), ReadHeaderTimeout: 5 * time.Second}
	go func() { _ = srvNrf.Serve(ln) }()

	rfPort, abPort, sbiPort, ownFtp, pasv := FreePort(), FreePort(), FreePort(), FreePort(), FreePort()
	cfg := BaseConfig(url, pem, key, rfPort, abPort, nil)
	cfg.Configuration.NrfUri = nrfURL
	cfg.Configuration.Sbi.Port = sbiPort
	cdrDir := filepath.Join(dir, "cdr")
	_ = os.MkdirAll(cdrDir, 0o755)
	cfg.Configuration.Cgf = &factory.Cgf{Enable: cgfOn == "true", HostIPv4: "127.0.0.1", Port: 1, ListenPort: ownFtp, CdrFilePath: cdrDir}
	cfg.Configuration.Cgf.PassiveTransferPortRange.Start, cfg.Configuration.Cgf.PassiveTransferPortRange.End = pasv, pasv+5
	factory.ChfConfig = cfg
	app, err := service.NewApp(context.Background(), cfg, "")
	if err != nil {
		return err
	}
	done := make(chan struct{})
	go func() {
		defer close(done)
		app.Start()
	}()
	up := WaitPort(rfPort, 8*time.Second) && WaitPort(abPort, 8*time.Second) && WaitPort(sbiPort, 12*time.Second)
	if cgfOn == "true" {
		up = up && WaitPort(ownFtp, 12*time.Second)
	}
	res := map[string]any{"up": up, "exited": false}
	supi := "imsi-" + tag + "1"
	if up && traffic == "true" {
		fm.Insert(ChargingNS, map[string]any{"ueId": supi, "ratingGroup": int32(1), "quota": "1000", "unitCost": "1"})
		req := models.ChfConvergedChargingChargingDataRequest{
			SubscriberIdentifier:     supi,
			NfConsumerIdentification: &models.ChfConvergedChargingNfIdentification{NFName: "smf", NodeFunctionality: "SMF"},
			InvocationSequenceNumber: 1,
		}
		if _, loc, pd := app.Processor().ChargingDataCreate(req); pd == nil {
			ref := loc[strings.LastIndex(loc, "/")+1:]
			req.MultipleUnitUsage = []models.ChfConvergedChargingMultipleUnitUsage{{RatingGroup: 1,
				UsedUnitContainer: []models.ChfConvergedChargingUsedUnitContainer{{QuotaManagementIndicator: models.QuotaManagementIndicator_OFFLINE_CHARGING, LocalSequenceNumber: 1, TotalVolume: 5}}}}
			_, _ = app.Processor().ChargingDataUpdate(req, ref)
		}
		_ = os.WriteFile(filepath.Join(cdrDir, supi+".cdr"), []byte("x"), 0o644)
	}
	t0 := time.Now()
	app.Terminate()
	select {
	case <-done:
		res["exited"] = true
	case <-time.After(25 * time.Second):
	}
	res["ms"] = time.Since(t0).Milliseconds()
	time.Sleep(200 * time.Millisecond)
	listening := []string{}
	for name, p := range map[string]int{"rf": rfPort, "abmf": abPort, "sbi": sbiPort, "cgf": ownFtp} {
		if portOpen(p) {
			listening = append(listening, name)
		}
	}
	res["listening"] = listening
	mu.Lock()
	res["nrfLog"] = log
	nrf := "unregistered"
	for _, l := range log {
		if strings.HasPrefix(l, "PUT ") {
			nrf = "registered"
		}
	}
	want := "/nnrf-nfm/v1/nf-instances/" + putID
	if answer == "201" {
		want = "/nnrf-nfm/v1/nf-instances/assigned-by-nrf"
	}
	for _, l := range log {
		if strings.HasPrefix(l, "DELETE ") {
			if l == "DELETE "+want {
				nrf = "deregistered"
			} else {
				nrf = "deregister_wrong_id"
			}
		}
	}
	mu.Unlock()
	res["nrf"] = nrf
	left, _ := filepath.Glob(filepath.Join(cdrDir, "*.cdr"))
	res["files"] = len(left) > 0
	_ = os.Remove("/tmp/" + supi + ".cdr")
	b, _ := json.Marshal(res)
	fmt.Println("LIFE " + string(b))
	os.Stdout.Sync()
	os.Exit(0) // listeners that outlive Start() must not keep the child alive
	return nil
}
