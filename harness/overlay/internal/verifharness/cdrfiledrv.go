package verifharness

// Driver for C14 / C15: structures enumerated by spec/CdrFileMC.tla are written with the real
// cdrFile.CDRFile.Encoding and read back with the real Decoding; the octets and both structures are logged.

import (
	"bufio"
	"bytes"
	"encoding/binary"
	"encoding/json"
	"fmt"
	"os"
	"path/filepath"
	"time"

	"github.com/free5gc/chf/cdr/cdrFile"
)

type tsJ struct {
	Month, Date, Hour, Minute, Sign, HourDev, MinDev int
}

func (t *tsJ) UnmarshalJSON(b []byte) error {
	var m map[string]int
	if err := json.Unmarshal(b, &m); err != nil {
		return err
	}
	*t = tsJ{m["month"], m["date"], m["hour"], m["minute"], m["sign"], m["hourDev"], m["minDev"]}
	return nil
}

func (t tsJ) MarshalJSON() ([]byte, error) {
	return json.Marshal(map[string]int{"month": t.Month, "date": t.Date, "hour": t.Hour, "minute": t.Minute, "sign": t.Sign, "hourDev": t.HourDev, "minDev": t.MinDev})
}

type hdrJ struct {
	FileLength   []int `json:"fileLength"`
	HeaderLength []int `json:"headerLength"`
	HiRel        int   `json:"hiRel"`
	HiVer        int   `json:"hiVer"`
	LoRel        int   `json:"loRel"`
	LoVer        int   `json:"loVer"`
	OpenTs       tsJ   `json:"openTs"`
	LastTs       tsJ   `json:"lastTs"`
	NCdrs        []int `json:"nCdrs"`
	FileSeq      []int `json:"fileSeq"`
	Closure      int   `json:"closure"`
	IP           []int `json:"ip"`
	Lost         int   `json:"lost"`
	Filter       []int `json:"filter"`
	Ext          []int `json:"ext"`
	HiExt        int   `json:"hiExt"`
	LoExt        int   `json:"loExt"`
}

type cdrJ struct {
	Rel     int   `json:"rel"`
	Ver     int   `json:"ver"`
	Fmt     int   `json:"fmt"`
	Ts      int   `json:"ts"`
	RelExt  int   `json:"relExt"`
	Payload []int `json:"payload"`
}

type fileJ struct {
	Hdr  hdrJ   `json:"hdr"`
	Cdrs []cdrJ `json:"cdrs"`
}

type CdrCase struct {
	ID string `json:"id"`
	S  fileJ  `json:"s"`
	// Mem: how the caller holds the structure's octet strings: "" = each in memory of its own; "blob" = routeing filter,
	// private extension and payloads are consecutive windows of ONE array (each slice has spare capacity reaching into the
	// next one's octets), as they are after the package's own Decoding or when cut from a received buffer
	Mem string `json:"mem"`
	// Pre: what happened to the encoder before this call: "" = nothing; "failed" = an Encoding of another structure whose
	// file could not be written (missing directory), its panic recovered by the caller
	Pre string `json:"pre"`
}

func patBytes(n, k int) []byte {
	b := make([]byte, n)
	for j := 0; j < n; j++ {
		b[j] = byte((j*7 + k*13 + 3) % 256)
	}
	return b
}

// items -> octets (tokens expanded)
func expand(items []int) []byte {
	var out []byte
	for _, x := range items {
		if x < 0 {
			out = append(out, patBytes((-x)/8, (-x)%8)...)
		} else {
			out = append(out, byte(x))
		}
	}
	return out
}

func u32(b []int) uint32 {
	return binary.BigEndian.Uint32(expand(b))
}

func be4(v uint32) []int {
	return []int{int(v >> 24), int(v >> 16 & 255), int(v >> 8 & 255), int(v & 255)}
}

func ints(b []byte) []int {
	out := make([]int, len(b))
	for i, x := range b {
		out[i] = int(x)
	}
	return out
}

// tokenise replaces every occurrence of a large payload pattern of the input structure by its token,
// by plain substring search (no knowledge of the file layout).
func tokenise(data []byte, s fileJ) []int {
	out := []int{}
	pos := 0
	for _, c := range s.Cdrs {
		if len(c.Payload) == 1 && c.Payload[0] < 0 {
			p := expand(c.Payload)
			idx := bytes.Index(data[pos:], p)
			if idx < 0 {
				continue
			}
			out = append(out, ints(data[pos:pos+idx])...)
			out = append(out, c.Payload[0])
			pos += idx + len(p)
		}
	}
	return append(out, ints(data[pos:])...)
}

func payloadItems(b []byte, want []int) []int {
	if len(want) == 1 && want[0] < 0 && bytes.Equal(b, expand(want)) {
		return want
	}
	return ints(b)
}

func tsOf(t cdrFile.CdrHdrTimeStamp) tsJ {
	return tsJ{int(t.MonthLocal), int(t.DateLocal), int(t.HourLocal), int(t.MinuteLocal), int(t.SignOfTheLocalTimeDifferentialFromUtc), int(t.HourDeviation), int(t.MinuteDeviation)}
}

func tsTo(t tsJ) cdrFile.CdrHdrTimeStamp {
	return cdrFile.CdrHdrTimeStamp{
		MonthLocal: uint8(t.Month), DateLocal: uint8(t.Date), HourLocal: uint8(t.Hour), MinuteLocal: uint8(t.Minute),
		SignOfTheLocalTimeDifferentialFromUtc: uint8(t.Sign), HourDeviation: uint8(t.HourDev), MinuteDeviation: uint8(t.MinDev),
	}
}

func RunCdrFile(in, out string) error {
	raw, err := os.ReadFile(in)
	if err != nil {
		return err
	}
	var cases []CdrCase
	if err = json.Unmarshal(raw, &cases); err != nil {
		return err
	}
	f, err := os.Create(out)
	if err != nil {
		return err
	}
	defer f.Close()
	w := bufio.NewWriterSize(f, 1<<20)
	defer w.Flush()
	dir, err := os.MkdirTemp(os.Getenv("VF_TMP"), "cdrf")
	if err != nil {
		return err
	}
	defer os.RemoveAll(dir)
	// the package prints diagnostics on stdout
	devnull, _ := os.OpenFile(os.DevNull, os.O_WRONLY, 0)
	os.Stdout = devnull
	for i, c := range cases {
		s := c.S
		var file cdrFile.CDRFile
		h := s.Hdr
		var ip [20]byte
		copy(ip[:], expand(h.IP))
		// the caller's memory
		filterB, extB := expand(h.Filter), expand(h.Ext)
		var payloads [][]byte
		for _, cj := range s.Cdrs {
			payloads = append(payloads, expand(cj.Payload))
		}
		if c.Mem == "blob" {
			total := len(filterB) + len(extB)
			for _, p := range payloads {
				total += len(p)
			}
			blob := make([]byte, 0, total+64)
			cut := func(b []byte) []byte {
				off := len(blob)
				blob = append(blob, b...)
				return blob[off:len(blob):cap(blob)] // spare capacity: the octets that follow belong to the next string
			}
			filterB, extB = cut(filterB), cut(extB)
			for k := range payloads {
				payloads[k] = cut(payloads[k])
			}
		}
		if c.Pre == "failed" {
			other := cdrFile.CDRFile{Hdr: cdrFile.CdrFileHeader{FileLength: 71, HeaderLength: 66, NumberOfCdrsInFile: 1, FileSequenceNumber: 9,
				CDRRouteingFilter: []byte("lost-filter"), LengthOfCdrRouteingFilter: 11},
				CdrList: []cdrFile.CDR{{Hdr: cdrFile.CdrHeader{CdrLength: 5}, CdrByte: []byte("LOST!")}}}
			func() {
				defer func() { _ = recover() }()
				other.Encoding(filepath.Join(dir, "no-such-directory", "x.cdr"))
			}()
		}
		file.Hdr = cdrFile.CdrFileHeader{
			FileLength: u32(h.FileLength), HeaderLength: u32(h.HeaderLength),
			HighReleaseIdentifier: uint8(h.HiRel), HighVersionIdentifier: uint8(h.HiVer),
			LowReleaseIdentifier: uint8(h.LoRel), LowVersionIdentifier: uint8(h.LoVer),
			FileOpeningTimestamp: tsTo(h.OpenTs), TimestampWhenLastCdrWasAppendedToFIle: tsTo(h.LastTs),
			NumberOfCdrsInFile: u32(h.NCdrs), FileSequenceNumber: u32(h.FileSeq),
			FileClosureTriggerReason: cdrFile.FileClosureTriggerReasonType(h.Closure), IpAddressOfNodeThatGeneratedFile: ip,
			LostCdrIndicator: uint8(h.Lost), LengthOfCdrRouteingFilter: uint16(len(h.Filter)), CDRRouteingFilter: filterB,
			LengthOfPrivateExtension: uint16(len(h.Ext)), PrivateExtension: extB,
			HighReleaseIdentifierExtension: uint8(h.HiExt), LowReleaseIdentifierExtension: uint8(h.LoExt),
		}
		for k, cj := range s.Cdrs {
			p := payloads[k]
			file.CdrList = append(file.CdrList, cdrFile.CDR{
				Hdr: cdrFile.CdrHeader{
					CdrLength: uint16(len(p)), ReleaseIdentifier: cdrFile.ReleaseIdentifierType(cj.Rel), VersionIdentifier: uint8(cj.Ver),
					DataRecordFormat: cdrFile.DataRecordFormatType(cj.Fmt), TsNumber: cdrFile.TsNumberIdentifier(cj.Ts),
					ReleaseIdentifierExtension: uint8(cj.RelExt),
				},
				CdrByte: p,
			})
		}
		path := filepath.Join(dir, fmt.Sprintf("f%d.cdr", i))
		rec := map[string]any{"trace": c.ID, "seq": i, "action": "file", "s": s, "encErr": "", "decErr": "", "bytes": []int{}, "decoded": s,
			"mem": c.Mem, "pre": c.Pre}
		guard := func(what string, fn func()) {
			done := make(chan string, 1)
			go func() {
				defer func() {
					if r := recover(); r != nil {
						done <- "panic: " + fmt.Sprint(r)
					}
				}()
				fn()
				done <- ""
			}()
			select {
			case e := <-done:
				rec[what] = e
			case <-time.After(20 * time.Second):
				rec[what] = "timeout"
			}
		}
		// the CHF rewrites one file name per subscriber with images of varying length (an update writes all records, a
		// release only one): the name already holds an older, longer image when Encoding is called
		_ = os.WriteFile(path, bytes.Repeat([]byte{0xA5}, 200000), 0o644)
		guard("encErr", func() { file.Encoding(path) })
		data, rerr := os.ReadFile(path)
		if rerr != nil && rec["encErr"] == "" {
			rec["encErr"] = "no file written"
		}
		if rec["encErr"] == "" {
			rec["bytes"] = tokenise(data, s)
			var back cdrFile.CDRFile
			guard("decErr", func() { back.Decoding(path) })
			if rec["decErr"] == "" {
				bh := back.Hdr
				d := fileJ{Hdr: hdrJ{
					FileLength: be4(bh.FileLength), HeaderLength: be4(bh.HeaderLength),
					HiRel: int(bh.HighReleaseIdentifier), HiVer: int(bh.HighVersionIdentifier),
					LoRel: int(bh.LowReleaseIdentifier), LoVer: int(bh.LowVersionIdentifier),
					OpenTs: tsOf(bh.FileOpeningTimestamp), LastTs: tsOf(bh.TimestampWhenLastCdrWasAppendedToFIle),
					NCdrs: be4(bh.NumberOfCdrsInFile), FileSeq: be4(bh.FileSequenceNumber), Closure: int(bh.FileClosureTriggerReason),
					IP: ints(bh.IpAddressOfNodeThatGeneratedFile[:]), Lost: int(bh.LostCdrIndicator),
					Filter: ints(bh.CDRRouteingFilter), Ext: ints(bh.PrivateExtension),
					HiExt: int(bh.HighReleaseIdentifierExtension), LoExt: int(bh.LowReleaseIdentifierExtension),
				}, Cdrs: []cdrJ{}}
				for k, bc := range back.CdrList {
					var want []int
					if k < len(s.Cdrs) {
						want = s.Cdrs[k].Payload
					}
					d.Cdrs = append(d.Cdrs, cdrJ{
						Rel: int(bc.Hdr.ReleaseIdentifier), Ver: int(bc.Hdr.VersionIdentifier), Fmt: int(bc.Hdr.DataRecordFormat),
						Ts: int(bc.Hdr.TsNumber), RelExt: int(bc.Hdr.ReleaseIdentifierExtension), Payload: payloadItems(bc.CdrByte, want),
					})
				}
				// the length fields of the decoded header that are not part of hdrJ are checked through Filter/Ext lengths
				if int(bh.LengthOfCdrRouteingFilter) != len(bh.CDRRouteingFilter) || int(bh.LengthOfPrivateExtension) != len(bh.PrivateExtension) {
					rec["decErr"] = "decoded length fields disagree with decoded contents"
				}
				rec["decoded"] = d
			}
		}
		_ = os.Remove(path)
		b, _ := json.Marshal(rec)
		_, _ = w.Write(b)
		_ = w.WriteByte('\n')
	}
	return nil
}
