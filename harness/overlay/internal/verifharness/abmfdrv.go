package verifharness

// Driver for C07: credit-control requests sent over a real TLS Diameter connection to the
// server started by pkg/abmf.OpenServer; the stored balance of every account is read back
// from the store after each request.

import (
	"sync/atomic"
	"bufio"
	"encoding/json"
	"fmt"
	"math/big"
	"os"
	"strconv"
	"strings"
	"time"

	"github.com/fiorix/go-diameter/diam"
	"github.com/fiorix/go-diameter/diam/datatype"

	charging_code "github.com/free5gc/chf/ccs_diameter/code"
	charging_datatype "github.com/free5gc/chf/ccs_diameter/datatype"
)

type AbmfStep struct {
	Key    string `json:"key"`
	Action string `json:"action"`
	Type   string `json:"type"`
	Num    uint32 `json:"num"`
	Sid    string `json:"sid"`
	Amt    []int  `json:"amt"`
	NoUnit bool   `json:"nounit"`
	Form   string `json:"form"` // "" / "plain" | "e164" (Subscription-Id-Type E.164) | "both" (the other unit AVP too)
}

type AbmfBeh struct {
	ID    string           `json:"id"`
	Accts map[string][]int `json:"accts"`
	Steps []AbmfStep       `json:"steps"`
}

var actionNum = map[string]charging_datatype.RequestedAction{
	"debit": charging_datatype.DIRECT_DEBITING, "refund": charging_datatype.REFUND_ACCOUNT,
	"check": charging_datatype.CHECK_BALANCE, "enquiry": charging_datatype.PRICE_ENQUIRY,
}

var typeNum = map[string]charging_datatype.CcRequestType{
	"initial": charging_datatype.INITIAL_REQUEST, "update": charging_datatype.UPDATE_REQUEST,
	"termination": charging_datatype.TERMINATION_REQUEST, "event": 4,
}

func splitKey(k string) (string, int32) {
	p := strings.SplitN(k, "|", 2)
	n, _ := strconv.Atoi(p[1])
	return p[0], int32(n)
}

func RunAbmf(env *Env, prefix, in, out string) error {
	raw, err := os.ReadFile(in)
	if err != nil {
		return err
	}
	var behs []AbmfBeh
	if err = json.Unmarshal(raw, &behs); err != nil {
		return err
	}
	f, err := os.Create(out)
	if err != nil {
		return err
	}
	defer f.Close()
	w := bufio.NewWriterSize(f, 1<<20)
	defer w.Flush()
	emit := func(v any) {
		b, _ := json.Marshal(v)
		_, _ = w.Write(b)
		_ = w.WriteByte('\n')
	}
	cli := NewDiamClient(fmt.Sprintf("127.0.0.1:%d", env.AbPort), env.Pem, env.Key, "CCA")
	defer cli.Close()
	supi := func(u string) string { return SupiOf(prefix, u) }
	// two reservations for one account written back to back on one connection while the store is slow to answer the first
	// look-up (it is held until a second look-up arrives, 600 ms at most): a server serves the requests of a connection
	// one after the other, so the outcome is that of the two requests in turn
	if len(behs) > 0 {
		pairNo := 0
		for _, pr := range [][3]uint64{{100, 60, 60}, {100, 100, 1}, {5, 3, 3}, {0, 1, 1}, {50, 20, 20}} {
			pairNo++
			env.ResetState(0)
			su := supi("7")
			env.PutAccount(su, 1, strconv.FormatUint(pr[0], 10), "1")
			var finds int32
			env.Mongo.BeforeFind = func(string) {
				if atomic.AddInt32(&finds, 1) == 1 {
					for i := 0; i < 120 && atomic.LoadInt32(&finds) < 2; i++ {
						time.Sleep(5 * time.Millisecond)
					}
				}
			}
			mk := func(num uint32, amt uint64) func(realm, host datatype.DiameterIdentity) any {
				return func(realm, host datatype.DiameterIdentity) any {
					return &charging_datatype.AccountDebitRequest{
						SessionId: "vfpair", OriginHost: "vfclient", OriginRealm: "go-diameter", DestinationRealm: realm, DestinationHost: host,
						EventTimestamp: datatype.Time(time.Now()), UserName: "CHF",
						SubscriptionId: &charging_datatype.SubscriptionId{SubscriptionIdType: charging_datatype.END_USER_IMSI, SubscriptionIdData: datatype.UTF8String(su[5:])},
						CcRequestNumber: datatype.Unsigned32(num), CcRequestType: typeNum["update"], RequestedAction: actionNum["debit"],
						MultipleServicesCreditControl: &charging_datatype.MultipleServicesCreditControl{RatingGroup: 1,
							RequestedServiceUnit: &charging_datatype.RequestedServiceUnit{CCTotalOctets: datatype.Unsigned64(amt)}},
					}
				}
			}
			answers, why := cli.ExchangePair(charging_code.ABMF_CreditControl, charging_code.Re_interface, mk(1, pr[1]), mk(2, pr[2]), 4*time.Second)
			env.Mongo.BeforeFind = nil
			got := map[string]any{}
			for _, a := range answers {
				p := parseCCA(a)
				g := int64(-1)
				if l, ok := p["granted"].([]int); ok {
					g = BigOfLimbs(l).Int64()
				}
				got[fmt.Sprint(p["num"])] = map[string]any{"granted": g, "fui": p["fui"]}
			}
			for _, k := range []string{"1", "2"} {
				if _, ok := got[k]; !ok {
					got[k] = map[string]any{"granted": int64(-1), "fui": false}
				}
			}
			q, _, _ := env.GetAccount(su, 1)
			left, _ := strconv.ParseInt(q, 10, 64)
			emit(map[string]any{"trace": fmt.Sprintf("%s-pair%d", behs[0].ID, pairNo), "seq": 0, "action": "pair", "why": why,
				"balance": pr[0], "a": pr[1], "b": pr[2], "ans": got, "left": left})
		}
	}
	// a peer that keeps its connection and stays quiet for a while before it asks again (first worker only)
	if len(behs) > 0 && strings.HasSuffix(prefix, "000") {
		env.ResetState(0)
		su := supi("8")
		env.PutAccount(su, 1, "50", "1")
		ask := func(num uint32) bool {
			ans, _ := cli.Exchange(charging_code.ABMF_CreditControl, charging_code.Re_interface,
				func(realm, host datatype.DiameterIdentity) any {
					return &charging_datatype.AccountDebitRequest{
						SessionId: "vfidle", OriginHost: "vfclient", OriginRealm: "go-diameter", DestinationRealm: realm, DestinationHost: host,
						EventTimestamp: datatype.Time(time.Now()), UserName: "CHF",
						SubscriptionId: &charging_datatype.SubscriptionId{SubscriptionIdType: charging_datatype.END_USER_IMSI, SubscriptionIdData: datatype.UTF8String(su[5:])},
						CcRequestNumber: datatype.Unsigned32(num), CcRequestType: typeNum["update"], RequestedAction: actionNum["debit"],
						MultipleServicesCreditControl: &charging_datatype.MultipleServicesCreditControl{RatingGroup: 1,
							RequestedServiceUnit: &charging_datatype.RequestedServiceUnit{CCTotalOctets: 1}},
					}
				}, 3*time.Second)
			return ans != nil
		}
		first := ask(1)
		time.Sleep(4 * time.Second)
		second := ask(2)
		emit(map[string]any{"trace": behs[0].ID + "-idle", "seq": 0, "action": "idle", "quiet_ms": 4000, "first": first, "second": second})
	}
	for _, b := range behs {
		env.ResetState(0)
		var keys []string
		for k, lim := range b.Accts {
			u, g := splitKey(k)
			env.PutAccount(supi(u), g, BigOfLimbs(lim).String(), "1")
			keys = append(keys, k)
		}
		dbState := func() map[string]any {
			st := map[string]any{}
			for _, k := range keys {
				u, g := splitKey(k)
				q, _, ok := env.GetAccount(supi(u), g)
				if !ok {
					continue
				}
				n, good := new(big.Int).SetString(q, 10)
				if !good {
					st[k] = map[string]any{"neg": false, "mag": []int{}, "bad": q}
					continue
				}
				st[k] = SignedBig(n)
			}
			return st
		}
		emit(map[string]any{"trace": b.ID, "seq": 0, "action": "reset", "state": dbState()})
		for i, s := range b.Steps {
			u, g := splitKey(s.Key)
			amt := BigOfLimbs(s.Amt)
			ans, why := cli.Exchange(charging_code.ABMF_CreditControl, charging_code.Re_interface,
				func(realm, host datatype.DiameterIdentity) any {
					ccr := &charging_datatype.AccountDebitRequest{
						SessionId: datatype.UTF8String(s.Sid), OriginHost: "vfclient", OriginRealm: "go-diameter",
						DestinationRealm: realm, DestinationHost: host,
						EventTimestamp: datatype.Time(time.Now()), UserName: "CHF",
						SubscriptionId: &charging_datatype.SubscriptionId{
							SubscriptionIdType: map[bool]charging_datatype.SubscriptionIdType{true: charging_datatype.END_USER_E164, false: charging_datatype.END_USER_IMSI}[s.Form == "e164"],
							SubscriptionIdData: datatype.UTF8String(supi(u)[5:]),
						},
						CcRequestNumber: datatype.Unsigned32(s.Num),
						CcRequestType:   typeNum[s.Type], RequestedAction: actionNum[s.Action],
					}
					mscc := &charging_datatype.MultipleServicesCreditControl{RatingGroup: datatype.Unsigned32(g)}
					if !s.NoUnit {
						if s.Action == "debit" && s.Type == "termination" {
							mscc.UsedServiceUnit = &charging_datatype.UsedServiceUnit{CCTotalOctets: datatype.Unsigned64(amt.Uint64())}
						} else {
							mscc.RequestedServiceUnit = &charging_datatype.RequestedServiceUnit{CCTotalOctets: datatype.Unsigned64(amt.Uint64())}
						}
						if s.Form == "both" {
							if mscc.UsedServiceUnit == nil {
								mscc.UsedServiceUnit = &charging_datatype.UsedServiceUnit{CCTotalOctets: 5}
							} else {
								mscc.RequestedServiceUnit = &charging_datatype.RequestedServiceUnit{CCTotalOctets: 5}
							}
						}
					}
					ccr.MultipleServicesCreditControl = mscc
					return ccr
				}, 1000*time.Millisecond)
			res := map[string]any{"why": why}
			if ans == nil {
				res["ans"] = "none"
			} else {
				res["ans"] = parseCCA(ans)
			}
			emit(map[string]any{
				"trace": b.ID, "seq": i + 1, "action": "ccr",
				"args": map[string]any{"key": s.Key, "action": s.Action, "type": s.Type, "num": s.Num, "sid": s.Sid, "amt": s.Amt,
					"form": map[bool]string{true: "plain", false: s.Form}[s.Form == ""]},
				"result": res, "state": dbState(),
			})
		}
	}
	return nil
}

var typeName = map[int64]string{1: "initial", 2: "update", 3: "termination", 4: "event"}

func parseCCA(m *diam.Message) map[string]any {
	out := map[string]any{"sid": "", "type": "", "num": -1, "mscc": false, "granted": []int{}, "fui": false, "echo": false}
	if s, ok := avpStr(avpPath(m, "Session-Id")); ok {
		out["sid"] = s
		out["echo"] = true
	}
	if v, ok := avpI64(avpPath(m, "CC-Request-Type")); ok {
		out["type"] = typeName[v]
		if typeName[v] == "" {
			out["type"] = fmt.Sprintf("t%d", v)
		}
	}
	if v, ok := avpU64(avpPath(m, "CC-Request-Number")); ok {
		out["num"] = clamp31(int64(v))
	}
	if a := avpPath(m, "Multiple-Services-Credit-Control"); a != nil {
		if v, ok := avpU64(avpPath(m, "Multiple-Services-Credit-Control", "Granted-Service-Unit", "CC-Total-Octets")); ok {
			out["mscc"] = true
			out["granted"] = LimbsU(v)
		}
		if _, ok := avpI64(avpPath(m, "Multiple-Services-Credit-Control", "Final-Unit-Indication", "Final-Unit-Action")); ok {
			out["fui"] = true
		}
	}
	return out
}
