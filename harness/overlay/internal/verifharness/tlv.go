package verifharness

// Observation tools written from TS 32.297 clause 6.1 and X.690, sharing no code with
// cdr/cdrFile or cdr/asn: a generic definite-length TLV walker and a CDR-file summariser.
// They report what is in the bytes; the verdicts are TLA+ formulas evaluated by TLC.

import "os"

type TLV struct {
	Class       int
	Constructed bool
	Tag         int
	HdrLen      int
	Len         int
	MinimalTag  bool
	MinimalLen  bool
}

// ParseTLVHeader reads one identifier+length at b[off:].  ok=false when truncated,
// indefinite or longer than the slice.
func ParseTLVHeader(b []byte, off int) (t TLV, ok bool) {
	if off >= len(b) {
		return t, false
	}
	p := off
	id := b[p]
	p++
	t.Class = int(id >> 6)
	t.Constructed = id&0x20 != 0
	t.Tag = int(id & 0x1f)
	t.MinimalTag = true
	if t.Tag == 0x1f {
		t.Tag = 0
		first := true
		for {
			if p >= len(b) {
				return t, false
			}
			c := b[p]
			p++
			if first && c == 0x80 {
				t.MinimalTag = false
			}
			first = false
			t.Tag = t.Tag<<7 | int(c&0x7f)
			if t.Tag > 1<<28 {
				return t, false
			}
			if c&0x80 == 0 {
				break
			}
		}
		if t.Tag < 31 {
			t.MinimalTag = false
		}
	}
	if p >= len(b) {
		return t, false
	}
	l := b[p]
	p++
	t.MinimalLen = true
	if l < 0x80 {
		t.Len = int(l)
	} else {
		n := int(l & 0x7f)
		if n == 0 || n > 4 || p+n > len(b) {
			return t, false
		}
		v := 0
		for i := 0; i < n; i++ {
			v = v<<8 | int(b[p+i])
		}
		if b[p] == 0 || v < 0x80 {
			t.MinimalLen = false
		}
		p += n
		t.Len = v
	}
	t.HdrLen = p - off
	if t.Len < 0 || p+t.Len > len(b) {
		return t, false
	}
	return t, true
}

// WalkTLV checks that b[off:off+total] is exactly one well-nested definite-length element
// whose constructed children tile their parent.  It returns the element count.
func WalkTLV(b []byte, off, end int, depth int) (n int, ok bool) {
	if depth > 64 {
		return 0, false
	}
	t, ok := ParseTLVHeader(b[:end], off)
	if !ok {
		return 0, false
	}
	n = 1
	if t.Constructed {
		p := off + t.HdrLen
		stop := p + t.Len
		for p < stop {
			ct, ok := ParseTLVHeader(b[:stop], p)
			if !ok {
				return n, false
			}
			cn, ok := WalkTLV(b, p, p+ct.HdrLen+ct.Len, depth+1)
			n += cn
			if !ok {
				return n, false
			}
			p += ct.HdrLen + ct.Len
		}
		if p != stop {
			return n, false
		}
	}
	return n, off+t.HdrLen+t.Len == end
}

func be(b []byte, off, n int) int64 {
	var v int64
	for i := 0; i < n; i++ {
		v = v<<8 | int64(b[off+i])
	}
	return v
}

// FileSummary reads a CDR file the way TS 32.297 6.1 lays it out and reports the raw
// field values next to the real sizes found in the bytes.
func FileSummary(path string) map[string]any {
	b, err := os.ReadFile(path)
	if err != nil {
		return map[string]any{"exists": false}
	}
	out := map[string]any{"exists": true, "size": len(b), "parsed": false, "recs": []any{}}
	if len(b) < 52 {
		return out
	}
	fileLen := be(b, 0, 4)
	hdrLen := be(b, 4, 4)
	hiRel := int(b[8] >> 5)
	loRel := int(b[9] >> 5)
	nCdrs := be(b, 18, 4)
	lrf := int(be(b, 48, 2))
	p := 50 + lrf
	if p+2 > len(b) {
		return out
	}
	lpe := int(be(b, p, 2))
	p += 2 + lpe
	if hiRel == 7 {
		p++
	}
	if loRel == 7 {
		p++
	}
	out["parsed"] = true
	out["fileLenField"] = clamp31(fileLen)
	out["hdrLenField"] = clamp31(hdrLen)
	out["hdrActual"] = p
	out["nCdrsField"] = clamp31(nCdrs)
	recs := []any{}
	complete := true
	for p < len(b) {
		if p+4 > len(b) {
			complete = false
			break
		}
		cl := int(be(b, p, 2))
		rel := int(b[p+2] >> 5)
		fmtv := int(b[p+3] >> 5)
		ts := int(b[p+3] & 0x1f)
		h := 4
		if rel == 7 {
			h = 5
		}
		pay := p + h
		rec := map[string]any{"cdrLen": cl, "rel": rel, "fmt": fmtv, "ts": ts, "tlvLen": -1, "tlvOk": false, "cls": -1, "tag": -1, "cons": false}
		t, ok := ParseTLVHeader(b, pay)
		if !ok {
			recs = append(recs, rec)
			complete = false
			break
		}
		total := t.HdrLen + t.Len
		_, wok := WalkTLV(b, pay, pay+total, 0)
		rec["tlvLen"] = total
		rec["tlvOk"] = wok
		rec["cls"] = t.Class
		rec["tag"] = t.Tag
		rec["cons"] = t.Constructed
		if wok {
			for k, v := range recordContent(b, pay, pay+total) {
				rec[k] = v
			}
		}
		recs = append(recs, rec)
		p = pay + total
	}
	out["recs"] = recs
	out["complete"] = complete
	out["end"] = p
	return out
}

// ---- content of one CHF record, read with the generic walker only (tag numbers from TS 32.298) ----

type tlvNode struct {
	t        TLV
	off, end int // content range
}

func children(b []byte, off, end int) []tlvNode {
	var out []tlvNode
	p := off
	for p < end {
		t, ok := ParseTLVHeader(b[:end], p)
		if !ok {
			return out
		}
		out = append(out, tlvNode{t: t, off: p + t.HdrLen, end: p + t.HdrLen + t.Len})
		p += t.HdrLen + t.Len
	}
	return out
}

// leaf descends through constructed wrappers to the first primitive element.
func leaf(b []byte, n tlvNode) (tlvNode, bool) {
	for depth := 0; n.t.Constructed && depth < 8; depth++ {
		cs := children(b, n.off, n.end)
		if len(cs) == 0 {
			return n, false
		}
		n = cs[0]
	}
	return n, !n.t.Constructed
}

func leafInt(b []byte, n tlvNode) int64 {
	l, ok := leaf(b, n)
	if !ok || l.end-l.off == 0 || l.end-l.off > 8 {
		return -1
	}
	v := int64(int8(b[l.off]))
	for i := l.off + 1; i < l.end; i++ {
		v = v<<8 | int64(b[i])
	}
	return clamp31(v)
}

func ctx(cs []tlvNode, tag int) (tlvNode, bool) {
	for _, c := range cs {
		if c.t.Class == 2 && c.t.Tag == tag {
			return c, true
		}
	}
	return tlvNode{}, false
}

// recordContent: session reference [16], cause for closing [9], record sequence number [8] and, in order, the
// used-unit containers of listOfMultipleUnitUsage [5] as [lsn, rg, total, uplink, downlink, ssu] (-1 = absent).
func recordContent(b []byte, off, end int) map[string]any {
	out := map[string]any{"ref": "", "cause": -1, "rsn": -1, "conts": []any{}, "contsSkipped": false}
	top, ok := ParseTLVHeader(b[:end], off)
	if !ok || !top.Constructed {
		return out
	}
	fields := children(b, off+top.HdrLen, end)
	// the record may sit inside one more constructed wrapper (SET / SEQUENCE)
	if len(fields) == 1 && fields[0].t.Class == 0 && fields[0].t.Constructed {
		fields = children(b, fields[0].off, fields[0].end)
	}
	if n, ok := ctx(fields, 16); ok {
		if l, ok := leaf(b, n); ok {
			out["ref"] = string(b[l.off:l.end])
		}
	}
	if n, ok := ctx(fields, 9); ok {
		out["cause"] = leafInt(b, n)
	}
	if n, ok := ctx(fields, 8); ok {
		out["rsn"] = leafInt(b, n)
	}
	conts := []any{}
	if n, ok := ctx(fields, 5); ok {
		get := func(cs []tlvNode, tag int) int64 {
			if c, ok := ctx(cs, tag); ok {
				return leafInt(b, c)
			}
			return -1
		}
		for _, mu := range children(b, n.off, n.end) {
			mf := children(b, mu.off, mu.end)
			rg := get(mf, 0)
			if ul, ok := ctx(mf, 1); ok {
				for _, uc := range children(b, ul.off, ul.end) {
					cf := children(b, uc.off, uc.end)
					conts = append(conts, []int64{get(cf, 9), rg, get(cf, 4), get(cf, 5), get(cf, 6), get(cf, 7)})
				}
			}
		}
	}
	if len(conts) > 600 {
		out["contsSkipped"] = true
		conts = []any{}
	}
	out["conts"] = conts
	return out
}
