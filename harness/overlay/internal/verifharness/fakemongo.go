package verifharness

// Minimal in-memory MongoDB wire-protocol server (prototype): enough for
// free5gc/util/mongoapi RestfulAPIGetOne / RestfulAPIPutOne.

import (
	"strings"
	"os"
	"encoding/binary"
	"fmt"
	"io"
	"net"
	"sync"

	"go.mongodb.org/mongo-driver/bson"
	"go.mongodb.org/mongo-driver/x/bsonx/bsoncore"
	"go.mongodb.org/mongo-driver/x/mongo/driver/wiremessage"
)

type FakeMongo struct {
	mu    sync.Mutex
	colls map[string][]bson.M // "db.coll" -> docs
	ln    net.Listener
	Ops   []string
	// AfterFind, when set, runs (under the lock) after a find has copied the matching document into its answer: a store
	// that changes between two reads (an operator editing a tariff while requests are served)
	AfterFind func(ns string, doc bson.M)
	// BeforeFind, when set, runs before a find command takes the store's lock (a slow read)
	BeforeFind func(ns string)
	// FailUpdate, when set and returning true, makes an update command fail (a transient write error of the store)
	FailUpdate func(ns string) bool
}

func StartFakeMongo() (*FakeMongo, string, error) {
	ln, err := net.Listen("tcp", "127.0.0.1:0")
	if err != nil {
		return nil, "", err
	}
	f := &FakeMongo{colls: map[string][]bson.M{}, ln: ln}
	go func() {
		for {
			c, err := ln.Accept()
			if err != nil {
				return
			}
			go f.serve(c)
		}
	}()
	return f, "mongodb://" + ln.Addr().String(), nil
}

// ListenUnix makes the same store reachable over a Unix domain socket as well; the result is the connection string in the
// percent-encoded form MongoDB drivers accept for socket paths (mongodb://%2Fdir%2Fname.sock).
func (f *FakeMongo) ListenUnix(path string) (string, error) {
	_ = os.Remove(path)
	ln, err := net.Listen("unix", path)
	if err != nil {
		return "", err
	}
	go func() {
		for {
			c, err := ln.Accept()
			if err != nil {
				return
			}
			go f.serve(c)
		}
	}()
	return "mongodb://" + strings.ReplaceAll(path, "/", "%2F"), nil
}

func (f *FakeMongo) Insert(ns string, doc bson.M) {
	f.mu.Lock()
	defer f.mu.Unlock()
	f.colls[ns] = append(f.colls[ns], doc)
}

func (f *FakeMongo) Find(ns string, filter bson.M) bson.M {
	f.mu.Lock()
	defer f.mu.Unlock()
	for _, d := range f.colls[ns] {
		if match(d, filter) {
			return d
		}
	}
	return nil
}

func num(v interface{}) (float64, bool) {
	switch x := v.(type) {
	case int32:
		return float64(x), true
	case int64:
		return float64(x), true
	case int:
		return float64(x), true
	case uint32:
		return float64(x), true
	case float64:
		return x, true
	}
	return 0, false
}

func match(d, filter bson.M) bool {
	for k, fv := range filter {
		dv, ok := d[k]
		if !ok {
			return false
		}
		if a, ok1 := num(fv); ok1 {
			b, ok2 := num(dv)
			if !ok2 || a != b {
				return false
			}
			continue
		}
		if fmt.Sprint(dv) != fmt.Sprint(fv) {
			return false
		}
	}
	return true
}

func (f *FakeMongo) serve(c net.Conn) {
	defer c.Close()
	for {
		var hdr [16]byte
		if _, err := io.ReadFull(c, hdr[:]); err != nil {
			return
		}
		length := int32(binary.LittleEndian.Uint32(hdr[0:4]))
		reqID := int32(binary.LittleEndian.Uint32(hdr[4:8]))
		opcode := wiremessage.OpCode(binary.LittleEndian.Uint32(hdr[12:16]))
		body := make([]byte, length-16)
		if _, err := io.ReadFull(c, body); err != nil {
			return
		}
		var resp []byte
		switch opcode {
		case wiremessage.OpQuery:
			_, rem, _ := wiremessage.ReadQueryFlags(body)
			_, rem, _ = wiremessage.ReadQueryFullCollectionName(rem)
			_, rem, _ = wiremessage.ReadQueryNumberToSkip(rem)
			_, rem, _ = wiremessage.ReadQueryNumberToReturn(rem)
			q, _, _ := wiremessage.ReadQueryQuery(rem)
			var cmd bson.D
			_ = bson.Unmarshal(q, &cmd)
			reply := f.handle("admin", cmd, nil)
			rb, _ := bson.Marshal(reply)
			idx, dst := wiremessage.AppendHeaderStart(nil, 0, reqID, wiremessage.OpReply)
			dst = wiremessage.AppendReplyFlags(dst, 0)
			dst = wiremessage.AppendReplyCursorID(dst, 0)
			dst = wiremessage.AppendReplyStartingFrom(dst, 0)
			dst = wiremessage.AppendReplyNumberReturned(dst, 1)
			dst = append(dst, rb...)
			resp = bsoncore.UpdateLength(dst, idx, int32(len(dst)))
		case wiremessage.OpMsg:
			_, rem, _ := wiremessage.ReadMsgFlags(body)
			var cmd bson.D
			seqs := map[string][]bsoncore.Document{}
			for len(rem) > 0 {
				var st wiremessage.SectionType
				st, rem, _ = wiremessage.ReadMsgSectionType(rem)
				if st == wiremessage.SingleDocument {
					var doc bsoncore.Document
					doc, rem, _ = wiremessage.ReadMsgSectionSingleDocument(rem)
					_ = bson.Unmarshal(doc, &cmd)
				} else {
					var id string
					var docs []bsoncore.Document
					id, docs, rem, _ = wiremessage.ReadMsgSectionDocumentSequence(rem)
					seqs[id] = docs
				}
			}
			db := ""
			for _, e := range cmd {
				if e.Key == "$db" {
					db, _ = e.Value.(string)
				}
			}
			reply := f.handle(db, cmd, seqs)
			rb, _ := bson.Marshal(reply)
			idx, dst := wiremessage.AppendHeaderStart(nil, 0, reqID, wiremessage.OpMsg)
			dst = wiremessage.AppendMsgFlags(dst, 0)
			dst = wiremessage.AppendMsgSectionType(dst, wiremessage.SingleDocument)
			dst = append(dst, rb...)
			resp = bsoncore.UpdateLength(dst, idx, int32(len(dst)))
		default:
			return
		}
		if _, err := c.Write(resp); err != nil {
			return
		}
	}
}

func toM(v interface{}) bson.M {
	switch x := v.(type) {
	case bson.M:
		return x
	case bson.D:
		m := bson.M{}
		for _, e := range x {
			m[e.Key] = e.Value
		}
		return m
	}
	return bson.M{}
}

func (f *FakeMongo) handle(db string, cmd bson.D, seqs map[string][]bsoncore.Document) bson.D {
	if len(cmd) == 0 {
		return bson.D{{Key: "ok", Value: 0}}
	}
	name := cmd[0].Key
	f.mu.Lock()
	f.Ops = append(f.Ops, name)
	f.mu.Unlock()
	switch name {
	case "isMaster", "ismaster", "hello":
		return bson.D{
			{Key: "ismaster", Value: true}, {Key: "isWritablePrimary", Value: true}, {Key: "helloOk", Value: true},
			{Key: "maxBsonObjectSize", Value: int32(16777216)}, {Key: "maxMessageSizeBytes", Value: int32(48000000)},
			{Key: "maxWriteBatchSize", Value: int32(100000)}, {Key: "minWireVersion", Value: int32(0)},
			{Key: "maxWireVersion", Value: int32(13)}, {Key: "readOnly", Value: false}, {Key: "ok", Value: 1.0},
		}
	case "ping", "endSessions", "killCursors":
		return bson.D{{Key: "ok", Value: 1.0}}
	case "find":
		coll, _ := cmd[0].Value.(string)
		ns := db + "." + coll
		if hook := f.BeforeFind; hook != nil {
			hook(ns)
		}
		var filter bson.M
		for _, e := range cmd {
			if e.Key == "filter" {
				filter = toM(e.Value)
			}
		}
		var batch bson.A
		f.mu.Lock()
		for _, d := range f.colls[ns] {
			if match(d, filter) {
				cp := bson.M{}
				for k, v := range d {
					cp[k] = v
				}
				batch = append(batch, cp)
				if f.AfterFind != nil {
					f.AfterFind(ns, d)
				}
				break
			}
		}
		f.mu.Unlock()
		if batch == nil {
			batch = bson.A{}
		}
		return bson.D{{Key: "cursor", Value: bson.D{{Key: "firstBatch", Value: batch}, {Key: "id", Value: int64(0)}, {Key: "ns", Value: ns}}}, {Key: "ok", Value: 1.0}}
	case "update":
		coll, _ := cmd[0].Value.(string)
		ns := db + "." + coll
		if hook := f.FailUpdate; hook != nil && hook(ns) {
			return bson.D{{Key: "ok", Value: 0.0}, {Key: "errmsg", Value: "injected write failure"}, {Key: "code", Value: int32(11600)},
				{Key: "codeName", Value: "InterruptedAtShutdown"}}
		}
		n := 0
		var ups []bson.M
		for _, raw := range seqs["updates"] {
			var u bson.M
			_ = bson.Unmarshal(raw, &u)
			ups = append(ups, u)
		}
		for _, e := range cmd {
			if e.Key == "updates" {
				if arr, ok := e.Value.(bson.A); ok {
					for _, x := range arr {
						ups = append(ups, toM(x))
					}
				}
			}
		}
		f.mu.Lock()
		for _, u := range ups {
			q := toM(u["q"])
			set := toM(toM(u["u"])["$set"])
			for _, d := range f.colls[ns] {
				if match(d, q) {
					for k, v := range set {
						d[k] = v
					}
					n++
					break
				}
			}
		}
		f.mu.Unlock()
		return bson.D{{Key: "n", Value: int32(n)}, {Key: "nModified", Value: int32(n)}, {Key: "ok", Value: 1.0}}
	case "insert":
		coll, _ := cmd[0].Value.(string)
		ns := db + "." + coll
		n := 0
		for _, raw := range seqs["documents"] {
			var d bson.M
			_ = bson.Unmarshal(raw, &d)
			f.Insert(ns, d)
			n++
		}
		return bson.D{{Key: "n", Value: int32(n)}, {Key: "ok", Value: 1.0}}
	}
	return bson.D{{Key: "ok", Value: 0.0}, {Key: "errmsg", Value: "unsupported " + name}, {Key: "code", Value: int32(59)}}
}

// Clear drops every document of a collection.
func (f *FakeMongo) Clear(ns string) {
	f.mu.Lock()
	defer f.mu.Unlock()
	delete(f.colls, ns)
	f.Ops = nil
}

// Set updates fields of the first matching document (harness-side top-up).
func (f *FakeMongo) Set(ns string, filter bson.M, set bson.M) bool {
	f.mu.Lock()
	defer f.mu.Unlock()
	for _, d := range f.colls[ns] {
		if match(d, filter) {
			for k, v := range set {
				d[k] = v
			}
			return true
		}
	}
	return false
}
