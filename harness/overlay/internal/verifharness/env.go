// Package verifharness is verification-only test infrastructure overlaid on a
// scratch copy of free5gc/chf (never committed to the repository).  It brings up the
// real processor, real gin router, real rating / account-balance Diameter servers over
// TLS and an in-memory stand-in for mongod, drives them with behaviours generated from
// the TLA+ specification and records ndjson traces for TLC to judge.
package verifharness

import (
	"reflect"
	"bytes"
	"context"
	"crypto/ecdsa"
	"crypto/elliptic"
	"crypto/rand"
	"crypto/x509"
	"crypto/x509/pkix"
	"encoding/json"
	"encoding/pem"
	"fmt"
	"io"
	"math/big"
	"net"
	"net/http"
	"net/http/httptest"
	"os"
	"path/filepath"
	"sync"
	"syscall"
	"time"

	"github.com/gin-gonic/gin"
	"github.com/sirupsen/logrus"
	"go.mongodb.org/mongo-driver/bson"
	"golang.org/x/net/http2"
	"golang.org/x/net/http2/h2c"

	chf_context "github.com/free5gc/chf/internal/context"
	"github.com/free5gc/chf/internal/logger"
	"github.com/free5gc/chf/internal/sbi"
	"github.com/free5gc/chf/internal/sbi/consumer"
	"github.com/free5gc/chf/internal/sbi/processor"
	"github.com/free5gc/chf/pkg/abmf"
	"github.com/free5gc/chf/pkg/factory"
	"github.com/free5gc/chf/pkg/rf"
)

const ChargingNS = "free5gc.policyData.ues.chargingData"

type stubApp struct {
	cfg  *factory.Config
	proc *processor.Processor
}

func (s *stubApp) SetLogEnable(bool)                { /* not needed */ }
func (s *stubApp) SetLogLevel(string)               { /* not needed */ }
func (s *stubApp) SetReportCaller(bool)             { /* not needed */ }
func (s *stubApp) Start()                           { /* not needed */ }
func (s *stubApp) Terminate()                       { /* not needed */ }
func (s *stubApp) Context() *chf_context.CHFContext { return chf_context.GetSelf() }
func (s *stubApp) Config() *factory.Config          { return s.cfg }
func (s *stubApp) Consumer() *consumer.Consumer     { return nil }
func (s *stubApp) Processor() *processor.Processor  { return s.proc }
func (s *stubApp) CancelContext() context.Context   { return context.Background() }

type Notif struct {
	Path string  `json:"path"`
	Rgs  []int32 `json:"rgs"`
}

type Env struct {
	Mongo    *FakeMongo
	Proc     *processor.Processor
	Router   *gin.Engine
	Dir      string
	Pem, Key string
	RfPort   int
	AbPort   int
	SinkURL  string

	nmu        sync.Mutex
	notifs     []Notif
	sinkStatus int
	// SinkHook, when set, runs while the consumer handles a notification, before it answers (a consumer that re-authorises
	// from inside its notification handler)
	SinkHook func(n Notif)
}

type EnvOpts struct {
	NoRating bool // do not start the repository's rating server (harness owns the peer)
	NoAbmf   bool // do not start the repository's account-balance server
	Services []string
}

func GenCert(dir string) (string, string) {
	key, _ := ecdsa.GenerateKey(elliptic.P256(), rand.Reader)
	tmpl := x509.Certificate{
		SerialNumber: big.NewInt(1), Subject: pkix.Name{CommonName: "verif"},
		NotBefore: time.Now().Add(-time.Hour), NotAfter: time.Now().Add(48 * time.Hour),
		KeyUsage:    x509.KeyUsageDigitalSignature,
		ExtKeyUsage: []x509.ExtKeyUsage{x509.ExtKeyUsageServerAuth, x509.ExtKeyUsageClientAuth},
		IPAddresses: []net.IP{net.ParseIP("127.0.0.1")},
	}
	der, _ := x509.CreateCertificate(rand.Reader, &tmpl, &tmpl, &key.PublicKey, key)
	kb, _ := x509.MarshalECPrivateKey(key)
	p := filepath.Join(dir, "c.pem")
	k := filepath.Join(dir, "c.key")
	_ = os.WriteFile(p, pem.EncodeToMemory(&pem.Block{Type: "CERTIFICATE", Bytes: der}), 0o600)
	_ = os.WriteFile(k, pem.EncodeToMemory(&pem.Block{Type: "EC PRIVATE KEY", Bytes: kb}), 0o600)
	return p, k
}

// FreePort reserves a TCP port for a server the repository's code will open itself (it takes a port number,
// not a listener).  Asking the kernel for port 0 and closing the listener is racy when a dozen harness processes
// run side by side: two of them can be handed the same number, one bind fails silently and that process would
// talk to the OTHER process's rating / account server.  So ports come from below the ephemeral range and each is
// protected by an advisory file lock held until this process exits.
var portLocks []*os.File

func FreePort() int {
	dir := "/var/tmp/vf.ports"
	_ = os.MkdirAll(dir, 0o777)
	const lo, n = 10000, 20000
	start := (os.Getpid()*7919 + len(portLocks)*131) % n
	for i := 0; i < n; i++ {
		p := lo + (start+i)%n
		f, err := os.OpenFile(filepath.Join(dir, fmt.Sprintf("%d.lock", p)), os.O_CREATE|os.O_RDWR, 0o666)
		if err != nil {
			continue
		}
		if syscall.Flock(int(f.Fd()), syscall.LOCK_EX|syscall.LOCK_NB) != nil {
			_ = f.Close()
			continue
		}
		l, err := net.Listen("tcp", fmt.Sprintf("127.0.0.1:%d", p))
		if err != nil {
			_ = f.Close()
			continue
		}
		_ = l.Close()
		portLocks = append(portLocks, f)
		return p
	}
	panic("no free port")
}

func WaitPort(port int, d time.Duration) bool {
	deadline := time.Now().Add(d)
	for time.Now().Before(deadline) {
		c, err := net.DialTimeout("tcp", fmt.Sprintf("127.0.0.1:%d", port), 200*time.Millisecond)
		if err == nil {
			_ = c.Close()
			return true
		}
		time.Sleep(20 * time.Millisecond)
	}
	return false
}

// Quiet sends the repository's logging to /dev/null unless VF_LOG is set.
func Quiet() {
	if os.Getenv("VF_LOG") == "" {
		logger.Log.SetOutput(io.Discard)
		logger.Log.SetLevel(logrus.PanicLevel)
		gin.SetMode(gin.ReleaseMode)
		gin.DefaultWriter = io.Discard
		gin.DefaultErrorWriter = io.Discard
	}
}

func BaseConfig(url, pemPath, keyPath string, rfPort, abPort int, services []string) *factory.Config {
	if services == nil {
		services = []string{"nchf-convergedcharging"}
	}
	return &factory.Config{
		Info: &factory.Info{Version: "1.0.3"},
		Configuration: &factory.Configuration{
			ChfName: "CHF",
			Sbi: &factory.Sbi{
				Scheme: "http", RegisterIPv4: "127.0.0.1", BindingIPv4: "127.0.0.1", Port: 8000,
			},
			ServiceNameList: services, NrfUri: "http://127.0.0.10:8000",
			Mongodb: &factory.Mongodb{Name: "free5gc", Url: url},
			RfDiameter: &factory.Diameter{
				Protocol: "tcp", HostIPv4: "127.0.0.1", Port: rfPort,
				Tls: &factory.Tls{Pem: pemPath, Key: keyPath},
			},
			AbmfDiameter: &factory.Diameter{
				Protocol: "tcp", HostIPv4: "127.0.0.1", Port: abPort,
				Tls: &factory.Tls{Pem: pemPath, Key: keyPath},
			},
			Cgf:                 &factory.Cgf{HostIPv4: "127.0.0.1", Port: 2121, ListenPort: 2122},
			VolumeThresholdRate: 0.8,
		},
		Logger: &factory.Logger{Level: "error"},
	}
}

func StartEnv(o EnvOpts) (*Env, error) {
	Quiet()
	e := &Env{}
	fm, url, err := StartFakeMongo()
	if err != nil {
		return nil, err
	}
	e.Mongo = fm
	dir, err := os.MkdirTemp(os.Getenv("VF_TMP"), "vfh")
	if err != nil {
		return nil, err
	}
	e.Dir = dir
	e.Pem, e.Key = GenCert(dir)
	e.RfPort, e.AbPort = FreePort(), FreePort()
	factory.ChfConfig = BaseConfig(url, e.Pem, e.Key, e.RfPort, e.AbPort, o.Services)
	chf_context.Init()
	var wg sync.WaitGroup
	wg.Add(2)
	if !o.NoRating {
		rf.OpenServer(context.Background(), &wg)
		if !WaitPort(e.RfPort, 5*time.Second) {
			return nil, fmt.Errorf("rating server did not come up")
		}
	}
	if !o.NoAbmf {
		abmf.OpenServer(context.Background(), &wg)
		if !WaitPort(e.AbPort, 5*time.Second) {
			return nil, fmt.Errorf("abmf server did not come up")
		}
	}
	e.Proc, _ = processor.NewProcessor(nil)
	e.Router = sbi.VerifNewRouter(&stubApp{cfg: factory.ChfConfig, proc: e.Proc})

	// notification sink (HTTP/2 cleartext, as the CHF's callback client speaks h2c)
	sink := http.HandlerFunc(func(w http.ResponseWriter, r *http.Request) {
		body, _ := io.ReadAll(r.Body)
		var nr struct {
			ReauthorizationDetails []struct {
				RatingGroup int32 `json:"ratingGroup"`
			} `json:"reauthorizationDetails"`
		}
		_ = json.Unmarshal(body, &nr)
		n := Notif{Path: r.URL.RequestURI()}
		for _, d := range nr.ReauthorizationDetails {
			n.Rgs = append(n.Rgs, d.RatingGroup)
		}
		e.nmu.Lock()
		e.notifs = append(e.notifs, n)
		st := e.sinkStatus
		hook := e.SinkHook
		e.nmu.Unlock()
		if hook != nil {
			hook(n)
		}
		if st == 0 {
			st = http.StatusNoContent
		}
		w.WriteHeader(st)
	})
	ln, err := net.Listen("tcp", "127.0.0.1:0")
	if err != nil {
		return nil, err
	}
	srv := &http.Server{Handler: h2c.NewHandler(sink, &http2.Server{}), ReadHeaderTimeout: 5 * time.Second}
	go func() { _ = srv.Serve(ln) }()
	e.SinkURL = "http://" + ln.Addr().String()
	return e, nil
}

func (e *Env) Close() {
	if e.Dir != "" {
		_ = os.RemoveAll(e.Dir)
	}
}

// SetSinkStatus chooses what the consumer's notification endpoint answers from now on (0 = 204 No Content).
func (e *Env) SetSinkStatus(st int) {
	e.nmu.Lock()
	e.sinkStatus = st
	e.nmu.Unlock()
}

// TakeNotifs returns and clears the notifications received so far.
func (e *Env) TakeNotifs() []Notif {
	e.nmu.Lock()
	defer e.nmu.Unlock()
	n := e.notifs
	e.notifs = nil
	return n
}

// ResetState clears the subscriber pool, the record counter and the account store.
func (e *Env) ResetState(lrsn uint64) {
	self := chf_context.GetSelf()
	self.UePool.Range(func(k, _ any) bool { self.UePool.Delete(k); return true })
	// (through reflection: the check must still build when the counter's integer type changes)
	reflect.ValueOf(self).Elem().FieldByName("LocalRecordSequenceNumber").SetUint(lrsn)
	e.Mongo.Clear(ChargingNS)
	e.TakeNotifs()
}

func (e *Env) PutAccount(supi string, rg int32, quota string, unitCost string) {
	e.Mongo.Insert(ChargingNS, bson.M{"ueId": supi, "ratingGroup": rg, "quota": quota, "unitCost": unitCost})
}

func (e *Env) GetAccount(supi string, rg int32) (quota string, cost string, ok bool) {
	d := e.Mongo.Find(ChargingNS, bson.M{"ueId": supi, "ratingGroup": rg})
	if d == nil {
		return "", "", false
	}
	q, _ := d["quota"].(string)
	c, _ := d["unitCost"].(string)
	return q, c, true
}

func (e *Env) SetQuota(supi string, rg int32, quota string) {
	e.Mongo.Set(ChargingNS, bson.M{"ueId": supi, "ratingGroup": rg}, bson.M{"quota": quota})
}

type HTTPResult struct {
	Status   int
	Body     string
	Location string
	Timeout  bool
}

// Do sends one request through the real gin router in-process, with a deadline.
func (e *Env) Do(method, path string, body []byte, hdr map[string]string, deadline time.Duration) HTTPResult {
	w := httptest.NewRecorder()
	req := httptest.NewRequest(method, path, bytes.NewReader(body))
	req.Header.Set("Content-Type", "application/json")
	for k, v := range hdr {
		req.Header.Set(k, v)
	}
	done := make(chan struct{})
	go func() {
		defer close(done)
		e.Router.ServeHTTP(w, req)
	}()
	select {
	case <-done:
		return HTTPResult{Status: w.Code, Body: w.Body.String(), Location: w.Header().Get("Location")}
	case <-time.After(deadline):
		return HTTPResult{Status: -1, Timeout: true}
	}
}
