package verifharness

// Driver for C04 / C05 / C16: values of the primitive types, of every CDR schema type (enumerated by
// reflection) and of struct/choice/slice types generated from TLC-enumerated shapes are marshalled with
// the real cdr/asn encoder, decoded back, and logged as typed value trees (see spec/Ber.tla) together with
// the octets; decoder inputs (mutations of valid encodings, short octet strings) are run under recover().

import (
	"bufio"
	"bytes"
	"context"
	"encoding/json"
	"fmt"
	"math/big"
	"math/rand"
	"os"
	"os/exec"
	"reflect"
	"runtime"
	"sort"
	"strconv"
	"strings"
	"sync"
	"sync/atomic"
	"time"

	"github.com/free5gc/chf/cdr/asn"
)

type BerParams struct {
	Tag      int  `json:"tag"`
	Optional bool `json:"optional"`
	Explicit bool `json:"explicit"`
	Set      bool `json:"set"`
	St       int  `json:"st"`
	Open     bool `json:"open"`
}

// parseBerTag reads the tag language independently of cdr/asn.
func parseBerTag(s string) BerParams {
	p := BerParams{Tag: -1}
	for _, part := range strings.Split(s, ",") {
		switch {
		case strings.HasPrefix(part, "tagNum:"):
			if n, err := strconv.Atoi(part[7:]); err == nil {
				p.Tag = n
			}
		case part == "optional":
			p.Optional = true
		case part == "explicit":
			p.Explicit = true
		case part == "set":
			p.Set = true
		case part == "utf8":
			p.St = 12
		case part == "ia5":
			p.St = 22
		case part == "graphic":
			p.St = 25
		case part == "openType":
			p.Open = true
		}
	}
	return p
}

const tokMin = 400

func itemsOf(b []byte, _ int) []int {
	if len(b) >= tokMin {
		for k := 0; k < 8; k++ {
			if b[0] == byte((k*13+3)%256) && bytes.Equal(b, patBytes(len(b), k)) {
				return []int{-(len(b)*8 + k)}
			}
		}
	}
	return ints(b)
}

func kindOfType(t reflect.Type) string {
	switch t {
	case asn.BitStringType:
		return "bits"
	case asn.OctetStringType:
		return "octets"
	case asn.ObjectIdentifierType:
		return "oid"
	case asn.EnumeratedType:
		return "enum"
	case asn.NullType:
		return "null"
	}
	switch t.Kind() {
	case reflect.Bool:
		return "bool"
	case reflect.Int, reflect.Int32, reflect.Int64:
		return "int"
	case reflect.String:
		return "str"
	case reflect.Struct:
		if t.NumField() == 0 {
			return "struct"
		}
		switch t.Field(0).Name {
		case "Value", "List":
			return "wrap"
		case "Present":
			return "choice"
		}
		return "struct"
	case reflect.Slice:
		return "slice"
	case reflect.Ptr:
		return kindOfType(t.Elem())
	}
	return "unsup"
}

func strKind(t reflect.Type) string {
	switch t {
	case asn.UTF8StringType:
		return "utf8"
	case asn.IA5StringType:
		return "ia5"
	case asn.GraphicStringType:
		return "graphic"
	}
	return "plain"
}

type Node = map[string]any

func absentNode(t reflect.Type, p BerParams) Node {
	return Node{"k": kindOfType(t), "p": p, "absent": true}
}

// nodeOf turns a Go value into the typed value tree of spec/Ber.tla.
func nodeOf(v reflect.Value, p BerParams, pat *int) Node {
	t := v.Type()
	if t.Kind() == reflect.Ptr {
		if v.IsNil() {
			return absentNode(t.Elem(), p)
		}
		return nodeOf(v.Elem(), p, pat)
	}
	if p.Optional && t.Kind() == reflect.Slice && v.IsNil() {
		// an OPTIONAL member of slice kind (OCTET STRING, SEQUENCE OF) is absent when nil
		return absentNode(t, p)
	}
	n := Node{"k": kindOfType(t), "p": p, "absent": false}
	switch n["k"] {
	case "bits":
		bs := v.Interface().(asn.BitString)
		n["v"] = ints(bs.Bytes)
		n["bitlen"] = clamp31(int64(bs.BitLength))
	case "octets":
		*pat = (*pat + 1) % 8
		n["v"] = itemsOf(v.Bytes(), *pat)
	case "enum", "int":
		n["v"] = SignedBig(big.NewInt(v.Int()))
	case "null":
		n["v"] = v.Bool()
	case "bool":
		n["v"] = v.Bool()
	case "str":
		*pat = (*pat + 1) % 8
		n["v"] = itemsOf([]byte(v.String()), *pat)
		n["kind"] = strKind(t)
	case "wrap":
		f := v.Field(0)
		n["kids"] = []Node{nodeOf(f, parseBerTag(t.Field(0).Tag.Get("ber")), pat)}
	case "choice":
		n["present"] = clamp31(v.Field(0).Int())
		kids := []Node{}
		for i := 1; i < t.NumField(); i++ {
			kids = append(kids, nodeOf(v.Field(i), parseBerTag(t.Field(i).Tag.Get("ber")), pat))
		}
		n["kids"] = kids
	case "struct":
		kids := []Node{}
		for i := 0; i < t.NumField(); i++ {
			kids = append(kids, nodeOf(v.Field(i), parseBerTag(t.Field(i).Tag.Get("ber")), pat))
		}
		n["kids"] = kids
	case "slice":
		kids := []Node{}
		for i := 0; i < v.Len(); i++ {
			kids = append(kids, nodeOf(v.Index(i), p, pat))
		}
		n["kids"] = kids
	}
	return n
}

// ---- value generation ------------------------------------------------------------------------

type fillOpt struct {
	rnd      *rand.Rand
	present  string // none | all | rand
	leaf     string // zero | small | boundary
	maxDepth int
	pat      int
	only     int // with present=="only": index (in walk order) of the single optional member to set
	optSeen  int
	skipOpen bool                 // leave out optional members that contain an unimplemented open type
	onPath   map[reflect.Type]int // "deepest": struct types on the path from the root (a recursive schema stops there)
}

// leafPaths lists, for a type, every way down to a leaf (a primitive, or a type met a second time): the field index taken
// at each structure / CHOICE on the way; pointers and lists are passed through.
func leafPaths(t reflect.Type, path map[reflect.Type]bool, prefix []int, out *[][]int) {
	switch t.Kind() {
	case reflect.Ptr, reflect.Slice:
		if t != asn.OctetStringType && t != asn.ObjectIdentifierType {
			leafPaths(t.Elem(), path, prefix, out)
			return
		}
	case reflect.Struct:
		if path[t] || t == asn.BitStringType || hasEmptyChoice(t, map[reflect.Type]bool{}) && t.NumField() == 1 {
			break
		}
		path[t] = true
		n := 0
		for i := 0; i < t.NumField(); i++ {
			if t.Field(i).PkgPath == "" && t.Field(i).Name != "Present" && !hasEmptyChoice(t.Field(i).Type, map[reflect.Type]bool{}) {
				leafPaths(t.Field(i).Type, path, append(append([]int{}, prefix...), i), out)
				n++
			}
		}
		delete(path, t)
		if n > 0 {
			return
		}
	}
	*out = append(*out, prefix)
}

// fillAlong builds a value in which the given path is present down to its leaf (every OPTIONAL member and CHOICE
// alternative on it); beside the path only mandatory members are filled, the leaf's own subtree as by "all".
func (o *fillOpt) fillAlong(v reflect.Value, path []int) {
	t := v.Type()
	switch t.Kind() {
	case reflect.Ptr:
		v.Set(reflect.New(t.Elem()))
		o.fillAlong(v.Elem(), path)
		return
	case reflect.Slice:
		if t != asn.OctetStringType && t != asn.ObjectIdentifierType {
			s := reflect.MakeSlice(t, 1, 1)
			o.fillAlong(s.Index(0), path)
			v.Set(s)
			return
		}
	case reflect.Struct:
		if len(path) == 0 || t == asn.BitStringType {
			break
		}
		if t.Field(0).Name == "Present" {
			v.Field(0).SetInt(int64(path[0]))
			o.fillAlong(v.Field(path[0]), path[1:])
			return
		}
		for i := 0; i < t.NumField(); i++ {
			f := v.Field(i)
			if !f.CanSet() {
				continue
			}
			if i == path[0] {
				o.fillAlong(f, path[1:])
				continue
			}
			p := parseBerTag(t.Field(i).Tag.Get("ber"))
			if p.Optional && (f.Kind() == reflect.Ptr || f.Kind() == reflect.Slice) {
				continue // beside the path only what is mandatory
			}
			side := &fillOpt{rnd: o.rnd, present: "none", leaf: o.leaf, maxDepth: 7, skipOpen: true}
			side.fill(f, 0)
		}
		return
	}
	side := &fillOpt{rnd: o.rnd, present: "all", leaf: o.leaf, maxDepth: 4, skipOpen: true}
	side.fill(v, 0)
}

// hasEmptyChoice: every value of the type includes a CHOICE without alternatives -- an open type the schema leaves
// unimplemented -- through mandatory members (or every alternative): such a value has no encoding.
var emptyChoiceMemo = map[reflect.Type]bool{}

func hasEmptyChoice(t reflect.Type, path map[reflect.Type]bool) bool {
	if r, ok := emptyChoiceMemo[t]; ok {
		return r
	}
	r := false
	switch t.Kind() {
	case reflect.Ptr, reflect.Slice:
		if t != asn.OctetStringType && t != asn.ObjectIdentifierType {
			r = hasEmptyChoice(t.Elem(), path)
		}
	case reflect.Struct:
		if path[t] || t == asn.BitStringType {
			return false
		}
		if t.NumField() == 1 && t.Field(0).Name == "Present" {
			r = true
			break
		}
		path[t] = true
		if t.NumField() > 0 && t.Field(0).Name == "Present" {
			r = true // a CHOICE: unless some alternative can be encoded
			for i := 1; i < t.NumField() && r; i++ {
				r = hasEmptyChoice(t.Field(i).Type, path)
			}
		} else {
			for i := 0; i < t.NumField() && !r; i++ {
				f := t.Field(i)
				if f.PkgPath != "" || parseBerTag(f.Tag.Get("ber")).Optional {
					continue
				}
				r = hasEmptyChoice(f.Type, path)
			}
		}
		delete(path, t)
	}
	if len(path) == 0 {
		emptyChoiceMemo[t] = r
	}
	return r
}

// typeDepth is the greatest number of nested fill steps (pointer, list, structure, alternative) below a type; a type
// that contains itself counts only up to its first recurrence.
var typeDepthMemo = map[reflect.Type]int{}

func typeDepth(t reflect.Type, path map[reflect.Type]bool) int {
	if d, ok := typeDepthMemo[t]; ok {
		return d
	}
	d := 0
	switch t.Kind() {
	case reflect.Ptr, reflect.Slice:
		if t != asn.OctetStringType && t != asn.ObjectIdentifierType {
			d = 1 + typeDepth(t.Elem(), path)
		}
	case reflect.Struct:
		if path[t] || t == asn.BitStringType {
			return 0
		}
		path[t] = true
		for i := 0; i < t.NumField(); i++ {
			if t.Field(i).PkgPath != "" {
				continue
			}
			if x := 1 + typeDepth(t.Field(i).Type, path); x > d {
				d = x
			}
		}
		delete(path, t)
	}
	if len(path) == 0 {
		typeDepthMemo[t] = d
	}
	return d
}

var intBoundary []int64

func init() {
	add := func(v int64) { intBoundary = append(intBoundary, v, -v) }
	for _, v := range []int64{0, 1, 2, 126, 127, 128, 129, 254, 255, 256, 257, 32766, 32767, 32768, 32769, 65535, 65536, 8388607, 8388608, 8388609} {
		add(v)
	}
	for k := uint(24); k <= 62; k++ {
		add(1<<k - 1)
		add(1 << k)
		add(1<<k + 1)
	}
	intBoundary = append(intBoundary, 1<<63-1, -1<<63, -1<<63+1)
}

var lenBoundary = []int{0, 1, 2, 126, 127, 128, 129, 255, 256, 257}

func (o *fillOpt) intVal() int64 {
	switch o.leaf {
	case "zero":
		return 0
	case "small":
		return int64(o.rnd.Intn(100)) + 1
	}
	return intBoundary[o.rnd.Intn(len(intBoundary))]
}

func (o *fillOpt) byteLen() int {
	switch o.leaf {
	case "zero":
		return 0
	case "small":
		return o.rnd.Intn(6) + 1
	}
	if o.rnd.Intn(40) == 0 {
		return []int{65535, 65536, 70000}[o.rnd.Intn(3)]
	}
	return lenBoundary[o.rnd.Intn(len(lenBoundary))]
}

func (o *fillOpt) bytesVal() []byte {
	n := o.byteLen()
	o.pat = (o.pat + 1) % 8
	if n >= tokMin {
		return patBytes(n, o.pat)
	}
	b := make([]byte, n)
	for i := range b {
		b[i] = byte(32 + o.rnd.Intn(90))
	}
	return b
}

func (o *fillOpt) wantOptional() bool {
	k := o.optSeen
	o.optSeen++
	switch o.present {
	case "none":
		return false
	case "all", "holes", "emptylists", "defaults", "deepest":
		return true
	case "only":
		return k == o.only
	}
	return o.rnd.Intn(2) == 0
}

// hole: under the "holes" strategy one pointer in eight is left nil where a value is required (mandatory member,
// selected CHOICE alternative, list element): such a value has no encoding and the codec must say so, not panic
func (o *fillOpt) hole() bool { return o.present == "holes" && o.rnd.Intn(8) == 0 }

func (o *fillOpt) fill(v reflect.Value, depth int) {
	t := v.Type()
	switch t {
	case asn.BitStringType:
		var bl int
		switch o.leaf {
		case "zero":
			bl = 0
		case "small":
			bl = o.rnd.Intn(17) + 1
		default:
			bl = []int{0, 1, 7, 8, 9, 15, 16, 17, 24, 1023, 1024}[o.rnd.Intn(11)]
		}
		b := make([]byte, (bl+7)/8)
		for i := range b {
			b[i] = byte(o.rnd.Intn(256))
		}
		// (in BER the unused bits of the final octet may have any value, X.690 8.6.2.4: every second value leaves them as drawn)
		if bl%8 != 0 && len(b) > 0 && o.rnd.Intn(2) == 0 {
			b[len(b)-1] &= byte(0xff << uint(8-bl%8))
		}
		v.Set(reflect.ValueOf(asn.BitString{Bytes: b, BitLength: uint64(bl)}))
		return
	case asn.OctetStringType, asn.ObjectIdentifierType:
		v.SetBytes(o.bytesVal())
		return
	case asn.NullType:
		v.SetBool(true)
		return
	}
	switch t.Kind() {
	case reflect.Bool:
		v.SetBool(o.leaf != "zero" && o.rnd.Intn(2) == 0)
	case reflect.Int, reflect.Int32, reflect.Int64, reflect.Int8, reflect.Int16:
		x := o.intVal()
		if t.Kind() == reflect.Int32 {
			x = int64(int32(x))
		}
		v.SetInt(x)
	case reflect.String:
		b := o.bytesVal()
		if len(b) < tokMin && o.rnd.Intn(3) == 0 {
			b = multibyte(len(b), o.rnd)
		}
		v.SetString(string(b))
	case reflect.Ptr:
		if depth >= o.maxDepth || o.hole() {
			return
		}
		v.Set(reflect.New(t.Elem()))
		o.fill(v.Elem(), depth+1)
	case reflect.Slice:
		n := 0
		if o.leaf != "zero" && depth < o.maxDepth {
			n = 1 + o.rnd.Intn(2)
		}
		if o.present == "emptylists" {
			n = 0 // present but empty (non-nil): encoded as an empty SEQUENCE OF, not omitted
		}
		s := reflect.MakeSlice(t, n, n)
		for i := 0; i < n; i++ {
			o.fill(s.Index(i), depth+1)
		}
		v.Set(s)
	case reflect.Struct:
		if o.present == "deepest" {
			if o.onPath == nil {
				o.onPath = map[reflect.Type]int{}
			}
			o.onPath[t]++
			defer func() { o.onPath[t]-- }()
		}
		if t.NumField() > 0 && t.Field(0).Name == "Present" {
			if t.NumField() == 1 {
				return
			}
			alt := 1 + o.rnd.Intn(t.NumField()-1)
			if o.present == "deepest" && o.onPath[t] < 1 {
				// the alternative with the most levels below it
				best := -1
				for i := 1; i < t.NumField(); i++ {
					if hasEmptyChoice(t.Field(i).Type, map[reflect.Type]bool{}) {
						continue
					}
					if d := typeDepth(t.Field(i).Type, map[reflect.Type]bool{}); d > best || (d == best && o.rnd.Intn(2) == 0) {
						best, alt = d, i
					}
				}
			}
			if depth >= o.maxDepth || (o.present == "deepest" && o.onPath[t] >= 1) {
				// pick an alternative that terminates quickly if there is one
				for i := 1; i < t.NumField(); i++ {
					ft := t.Field(i).Type
					if ft.Kind() == reflect.Ptr && ft.Elem().Kind() != reflect.Struct {
						alt = i
						break
					}
				}
			}
			v.Field(0).SetInt(int64(alt))
			f := v.Field(alt)
			if f.Kind() == reflect.Ptr {
				if o.hole() {
					return
				}
				f.Set(reflect.New(f.Type().Elem()))
				o.fill(f.Elem(), depth+1)
			} else {
				o.fill(f, depth+1)
			}
			return
		}
		for i := 0; i < t.NumField(); i++ {
			f := v.Field(i)
			if !f.CanSet() {
				continue
			}
			p := parseBerTag(t.Field(i).Tag.Get("ber"))
			if p.Optional && (f.Kind() == reflect.Ptr || f.Kind() == reflect.Slice) {
				if !o.wantOptional() || depth >= o.maxDepth {
					continue
				}
				if (o.present == "deepest" || o.skipOpen) && hasEmptyChoice(f.Type(), map[reflect.Type]bool{}) {
					continue // (an unimplemented open type below: the value would have no encoding at all)
				}
			}
			o.fill(f, depth+1)
			if o.present == "defaults" {
				// a member that carries exactly the DEFAULT of its type is still a present member
				if dv, ok := defaultOfTag(t.Field(i).Tag.Get("ber")); ok {
					setFirstScalar(f, dv)
				}
			}
		}
	}
}

// defaultOfTag extracts the value of "default:<v>" from a ber tag (numbers, TRUE/FALSE).
func defaultOfTag(tag string) (int64, bool) {
	for _, part := range strings.Split(tag, ",") {
		if strings.HasPrefix(part, "default:") {
			v := part[8:]
			switch strings.ToUpper(v) {
			case "TRUE":
				return 1, true
			case "FALSE":
				return 0, true
			}
			if n, err := strconv.ParseInt(v, 10, 64); err == nil {
				return n, true
			}
		}
	}
	return 0, false
}

// setFirstScalar sets the first integer / boolean reachable through pointers and single-field wrappers.
func setFirstScalar(v reflect.Value, x int64) {
	for depth := 0; depth < 6; depth++ {
		switch v.Kind() {
		case reflect.Ptr:
			if v.IsNil() {
				return
			}
			v = v.Elem()
		case reflect.Struct:
			if v.NumField() == 0 {
				return
			}
			v = v.Field(0)
		case reflect.Int, reflect.Int32, reflect.Int64:
			if v.CanSet() {
				v.SetInt(x)
			}
			return
		case reflect.Bool:
			if v.CanSet() {
				v.SetBool(x != 0)
			}
			return
		default:
			return
		}
	}
}

// equalModuloNilEmpty is reflect.DeepEqual except that a nil slice equals an empty one (ASN.1 has no such distinction
// for a member that is present; absence of an OPTIONAL member is judged on the value trees).
func equalModuloNilEmpty(a, b reflect.Value) bool {
	if a.Type() != b.Type() {
		return false
	}
	switch a.Kind() {
	case reflect.Ptr, reflect.Interface:
		if a.IsNil() || b.IsNil() {
			return a.IsNil() == b.IsNil()
		}
		return equalModuloNilEmpty(a.Elem(), b.Elem())
	case reflect.Slice:
		if a.Len() != b.Len() {
			return false
		}
		for i := 0; i < a.Len(); i++ {
			if !equalModuloNilEmpty(a.Index(i), b.Index(i)) {
				return false
			}
		}
		return true
	case reflect.Struct:
		for i := 0; i < a.NumField(); i++ {
			if !a.Type().Field(i).IsExported() {
				continue
			}
			if !equalModuloNilEmpty(a.Field(i), b.Field(i)) {
				return false
			}
		}
		return true
	}
	return reflect.DeepEqual(a.Interface(), b.Interface())
}

// ---- generated types (shapes enumerated by TLC) ------------------------------------------------

type ShapeMember struct {
	Kind    string `json:"kind"`
	Tag     int    `json:"tag"`
	Opt     bool   `json:"opt"`
	Present bool   `json:"present"`
	Extra   string `json:"extra"` // "", "set", "explicit"
}

type BerCase struct {
	ID      string        `json:"id"`
	Mode    string        `json:"mode"` // prim | schema | shape | fuzz
	Type    string        `json:"type"`
	Leaf    string        `json:"leaf"`
	Present string        `json:"present"`
	Only    int           `json:"only"`
	Seed    int64         `json:"seed"`
	Params  string        `json:"params"`
	Members []ShapeMember `json:"members"`
	Top     string        `json:"top"` // shape: "struct" | "choice" | "slice"
	Val     string        `json:"val"` // prim: explicit decimal value / length
	N       int           `json:"n"`
	Bytes   []int         `json:"bytes"` // foreign: a valid encoding written by the reference (a type the codec cannot encode)
}

var innerStruct = reflect.StructOf([]reflect.StructField{
	{Name: "A", Type: reflect.TypeOf(int64(0)), Tag: `ber:"tagNum:0"`},
	{Name: "B", Type: reflect.PtrTo(asn.OctetStringType), Tag: `ber:"tagNum:1,optional"`},
})

var innerChoice = reflect.StructOf([]reflect.StructField{
	{Name: "Present", Type: reflect.TypeOf(int(0))},
	{Name: "A", Type: reflect.PtrTo(reflect.TypeOf(int64(0))), Tag: `ber:"tagNum:0"`},
	{Name: "B", Type: reflect.PtrTo(asn.UTF8StringType), Tag: `ber:"tagNum:31"`},
	{Name: "C", Type: reflect.PtrTo(innerStruct), Tag: `ber:"tagNum:128"`},
})

var wrapInt = reflect.StructOf([]reflect.StructField{{Name: "Value", Type: reflect.TypeOf(int64(0))}})
var wrapList = reflect.StructOf([]reflect.StructField{{Name: "List", Type: reflect.SliceOf(wrapInt)}})

func memberType(kind string) reflect.Type {
	switch kind {
	case "int":
		return reflect.TypeOf(int64(0))
	case "goint":
		return reflect.TypeOf(int(0)) // Go's platform int (64 bits here), encoded like any INTEGER
	case "int32":
		return reflect.TypeOf(int32(0))
	case "bool":
		return reflect.TypeOf(false)
	case "octets":
		return asn.OctetStringType
	case "utf8":
		return asn.UTF8StringType
	case "ia5":
		return asn.IA5StringType
	case "graphic":
		return asn.GraphicStringType
	case "enum":
		return asn.EnumeratedType
	case "bits":
		return asn.BitStringType
	case "null":
		return asn.NullType
	case "wrapint":
		return wrapInt
	case "wraplist":
		return wrapList
	case "struct2":
		return innerStruct
	case "choice2":
		return innerChoice
	case "sliceint":
		return reflect.SliceOf(reflect.TypeOf(int64(0)))
	case "slicestruct":
		return reflect.SliceOf(innerStruct)
	case "sliceoctets":
		return reflect.SliceOf(asn.OctetStringType)
	case "oid":
		return asn.ObjectIdentifierType
	case "strplain":
		return reflect.TypeOf("")
	case "slicestr":
		return reflect.SliceOf(reflect.TypeOf(""))
	}
	return reflect.TypeOf(int64(0))
}

func shapeType(c BerCase) reflect.Type {
	var fields []reflect.StructField
	if c.Top == "choice" {
		fields = append(fields, reflect.StructField{Name: "Present", Type: reflect.TypeOf(int(0))})
	}
	for i, m := range c.Members {
		t := memberType(m.Kind)
		var parts []string
		if m.Tag >= 0 { // (a negative tag: the member carries its type's UNIVERSAL tag)
			parts = append(parts, fmt.Sprintf("tagNum:%d", m.Tag))
		}
		if m.Opt && c.Top != "choice" {
			parts = append(parts, "optional")
		}
		if m.Extra != "" {
			parts = append(parts, m.Extra)
		}
		tag := strings.Join(parts, ",")
		if (m.Opt || c.Top == "choice") && t.Kind() != reflect.Slice {
			t = reflect.PtrTo(t)
		}
		fields = append(fields, reflect.StructField{Name: fmt.Sprintf("F%d", i), Type: t, Tag: reflect.StructTag(`ber:"` + tag + `"`)})
	}
	return reflect.StructOf(fields)
}

// ---- running ----------------------------------------------------------------------------------

func guarded(d time.Duration, fn func()) string {
	done := make(chan string, 1)
	go func() {
		defer func() {
			if r := recover(); r != nil {
				done <- "panic: " + fmt.Sprint(r)
			}
		}()
		fn()
		done <- ""
	}()
	select {
	case e := <-done:
		return e
	case <-time.After(d):
		return "timeout"
	}
}

// tokeniseKnown replaces, in order, the exact octet runs of the long strings the value is known to contain
// (collected from the value tree in encoding order) by their tokens; anything else stays explicit.
func tokeniseKnown(b []byte, tree Node) []int {
	var toks []int
	var walk func(n Node)
	walk = func(n Node) {
		if a, _ := n["absent"].(bool); a {
			return
		}
		if v, ok := n["v"].([]int); ok && len(v) == 1 && v[0] < 0 {
			toks = append(toks, v[0])
		}
		if n["k"] == "choice" {
			if kids, ok := n["kids"].([]Node); ok {
				if pr, ok := n["present"].(int64); ok && pr >= 1 && int(pr) <= len(kids) {
					walk(kids[pr-1])
				}
			}
			return
		}
		if kids, ok := n["kids"].([]Node); ok {
			for _, k := range kids {
				walk(k)
			}
		}
	}
	walk(tree)
	out := []int{}
	pos := 0
	for _, t := range toks {
		run := patBytes((-t)/8, (-t)%8)
		idx := bytes.Index(b[pos:], run)
		if idx < 0 {
			continue
		}
		out = append(out, ints(b[pos:pos+idx])...)
		out = append(out, t)
		pos += idx + len(run)
	}
	return append(out, ints(b[pos:])...)
}

func tokeniseBytes(b []byte) []int {
	// replace long pattern runs (any pattern) by tokens, found by plain search
	if len(b) < tokMin {
		return ints(b)
	}
	out := []int{}
	pos := 0
	for pos < len(b) {
		found := false
		if len(b)-pos >= tokMin {
			for _, n := range []int{70000, 65536, 65535} {
				if pos+n > len(b) {
					continue
				}
				for k := 0; k < 8 && !found; k++ {
					if b[pos] == byte((k*13+3)%256) && bytes.Equal(b[pos:pos+n], patBytes(n, k)) {
						out = append(out, -(n*8 + k))
						pos += n
						found = true
					}
				}
				if found {
					break
				}
			}
		}
		if !found {
			out = append(out, int(b[pos]))
			pos++
		}
	}
	return out
}

type berRunner struct {
	w   *bufio.Writer
	seq int
	// held: octet strings returned by the most recent marshal calls, kept as a caller would keep them, each with a private
	// copy taken at once; every later call is followed by a comparison (an encoder that recycles its output buffers
	// changes a result after it has been handed out)
	held [][2][]byte
}

// heldIntact reports whether every held result still reads as it did when it was returned, then holds out.
func (r *berRunner) heldIntact(out []byte) bool {
	ok := true
	for _, h := range r.held {
		if !bytes.Equal(h[0], h[1]) {
			ok = false
		}
	}
	if out != nil {
		r.held = append(r.held, [2][]byte{out, append([]byte(nil), out...)})
		if len(r.held) > 8 {
			r.held = r.held[1:]
		}
	}
	if !ok {
		r.held = nil // reported once
	}
	return ok
}

func (r *berRunner) emit(v any) {
	b, _ := json.Marshal(v)
	_, _ = r.w.Write(b)
	_ = r.w.WriteByte('\n')
}

// roundTrip marshals val (pointer to value), decodes into a fresh value and logs one line.
func (r *berRunner) roundTrip(c BerCase, ptr reflect.Value, params string) []byte {
	r.seq++
	pat := 0
	top := parseBerTag(params)
	rec := Node{"trace": c.ID, "seq": r.seq, "action": "marshal", "mode": c.Mode, "type": c.Type, "params": params,
		"enc": "", "dec": "", "bytes": []int{}, "node": nodeOf(ptr.Elem(), top, &pat), "back": Node{"k": "none"}, "deq": false, "held": true}
	var out []byte
	var err error
	if e := guarded(20*time.Second, func() { out, err = asn.BerMarshalWithParams(ptr.Interface(), params) }); e != "" {
		rec["enc"] = e
	} else if err != nil {
		rec["enc"] = "error"
	}
	if rec["enc"] == "" {
		rec["bytes"] = tokeniseKnown(append([]byte(nil), out...), rec["node"].(Node))
		back := reflect.New(ptr.Type().Elem())
		var derr error
		if e := guarded(20*time.Second, func() { derr = asn.UnmarshalWithParams(out, back.Interface(), params) }); e != "" {
			rec["dec"] = e
		} else if derr != nil {
			rec["dec"] = "error"
		} else {
			p2 := 0
			rec["back"] = nodeOf(back.Elem(), top, &p2)
			rec["deq"] = equalModuloNilEmpty(ptr.Elem(), back.Elem())
		}
	}
	if rec["enc"] == "" {
		rec["held"] = r.heldIntact(out)
	} else {
		rec["held"] = r.heldIntact(nil)
	}
	r.emit(rec)
	if rec["enc"] == "" {
		return out
	}
	return nil
}

// choiceTags lists the context tags that select an alternative of CHOICE type t, including those of
// untagged alternatives that are CHOICEs themselves.
func choiceTags(t reflect.Type) []int {
	for t.Kind() == reflect.Ptr {
		t = t.Elem()
	}
	tags := []int{}
	if kindOfType(t) != "choice" {
		return tags
	}
	for i := 1; i < t.NumField(); i++ {
		if n := parseBerTag(t.Field(i).Tag.Get("ber")).Tag; n >= 0 {
			tags = append(tags, n)
		} else {
			tags = append(tags, choiceTags(t.Field(i).Type)...)
		}
	}
	return tags
}

func targetInfo(t reflect.Type) Node {
	k := kindOfType(t)
	info := Node{"k": k, "tags": []int{}}
	if k == "choice" {
		info["tags"] = choiceTags(t)
	}
	return info
}

func (r *berRunner) decodeOnly(c BerCase, cls string, data []byte, t reflect.Type, tname, params string) {
	r.seq++
	val := reflect.New(t)
	var derr error
	res := guarded(5*time.Second, func() { derr = asn.UnmarshalWithParams(data, val.Interface(), params) })
	if res == "" {
		if derr != nil {
			res = "error"
		} else {
			res = "ok"
		}
	}
	r.emit(Node{"trace": c.ID, "seq": r.seq, "action": "decode", "cls": cls, "bytes": ints(data), "target": tname,
		"tinfo": targetInfo(t), "params": params, "result": res})
}

// deepInputs: n repetitions of an empty constructed header, and n properly nested [0] wrappers around an INTEGER.
func deepInputs(n int) map[string][]byte {
	if n <= 0 {
		n = 1500000
	}
	out := map[string][]byte{}
	for name, h := range map[string][]byte{"a000": {0xa0, 0x00}, "3000": {0x30, 0x00}, "a080": {0xa0, 0x80}, "bf1f00": {0xbf, 0x1f, 0x00}} {
		out[name] = bytes.Repeat(h, n)
	}
	// nested with exact lengths, built from the inside out (lengths stay below 2^24)
	depth := n
	if depth > 1200000 {
		depth = 1200000
	}
	inner := []byte{0x02, 0x01, 0x05}
	hdrs := make([][]byte, 0, depth)
	l := len(inner)
	for i := 0; i < depth; i++ {
		var h []byte
		switch {
		case l < 0x80:
			h = []byte{0xa0, byte(l)}
		case l < 0x100:
			h = []byte{0xa0, 0x81, byte(l)}
		case l < 0x10000:
			h = []byte{0xa0, 0x82, byte(l >> 8), byte(l)}
		default:
			h = []byte{0xa0, 0x83, byte(l >> 16), byte(l >> 8), byte(l)}
		}
		if l+len(h) >= 1<<24 {
			break
		}
		hdrs = append(hdrs, h)
		l += len(h)
	}
	nested := make([]byte, 0, l)
	for i := len(hdrs) - 1; i >= 0; i-- {
		nested = append(nested, hdrs[i]...)
	}
	out["nested"] = append(nested, inner...)
	return out
}

// decodeChild runs one decode in a child process (vfh berchild) and records how the child ended.
func (r *berRunner) decodeChild(c BerCase, cls string, data []byte, t reflect.Type, tname, params string) {
	r.seq++
	dir := os.Getenv("VF_TMP")
	f, err := os.CreateTemp(dir, "deep")
	res := "error"
	if err == nil {
		_, _ = f.Write(data)
		_ = f.Close()
		defer os.Remove(f.Name())
		ctx, cancel := context.WithTimeout(context.Background(), 60*time.Second)
		cmd := exec.CommandContext(ctx, os.Args[0], "berchild", tname, params, f.Name())
		var stdout, stderr bytes.Buffer
		cmd.Stdout, cmd.Stderr = &stdout, &stderr
		runErr := cmd.Run()
		timedOut := ctx.Err() == context.DeadlineExceeded
		cancel()
		line := strings.TrimSpace(stdout.String())
		switch {
		case timedOut:
			res = "timeout"
		case runErr == nil && (line == "RESULT ok" || line == "RESULT error" || line == "RESULT encdiff" || line == "RESULT decdiff"):
			res = strings.TrimPrefix(line, "RESULT ")
		case strings.HasPrefix(line, "RESULT panic"):
			res = "panic"
		default:
			res = "crash"
			for _, l := range strings.Split(stderr.String(), "\n") {
				if strings.HasPrefix(l, "fatal error:") || strings.HasPrefix(l, "runtime:") {
					res = "crash: " + strings.TrimSpace(l)
					break
				}
			}
		}
	}
	head := data
	if len(head) > 6 {
		head = head[:6]
	}
	r.emit(Node{"trace": c.ID, "seq": r.seq, "action": "decode", "cls": "deep", "input": cls, "size": len(data), "bytes": ints(head),
		"target": tname, "tinfo": targetInfo(t), "params": params, "result": res})
}

// BerChild is the child side of decodeChild.
func BerChild(tname, params, file string) error {
	data, err := os.ReadFile(file)
	if err != nil {
		return err
	}
	prims := map[string]reflect.Type{
		"int": reflect.TypeOf(int64(0)), "enum": asn.EnumeratedType, "bool": reflect.TypeOf(false),
		"octets": asn.OctetStringType, "utf8": asn.UTF8StringType, "bits": asn.BitStringType,
	}
	if tname == "@cold" {
		return berCold(data)
	}
	if tname == "@hot" {
		return berHot(data)
	}
	t, ok := prims[tname]
	if !ok {
		t, ok = SchemaTypes[tname]
	}
	if !ok {
		return fmt.Errorf("unknown target %s", tname)
	}
	val := reflect.New(t)
	var derr error
	res := guarded(45*time.Second, func() { derr = asn.UnmarshalWithParams(data, val.Interface(), params) })
	switch {
	case res == "" && derr != nil:
		res = "error"
	case res == "":
		res = "ok"
	}
	fmt.Println("RESULT " + res)
	return nil
}

// berCold: a process that has decoded nothing yet decodes values of every schema type from many tasks at once (the
// CHF's request handlers decode concurrently from the first request on).  data holds the seed.
func berCold(data []byte) error {
	seed, _ := strconv.ParseInt(strings.TrimSpace(string(data)), 10, 64)
	rnd := rand.New(rand.NewSource(seed))
	names := make([]string, 0, len(SchemaTypes))
	for n := range SchemaTypes {
		names = append(names, n)
	}
	sort.Strings(names)
	type item struct {
		t   reflect.Type
		enc []byte
	}
	var items []item
	for _, n := range names {
		t := SchemaTypes[n]
		ptr := reflect.New(t)
		o := &fillOpt{rnd: rnd, present: "all", leaf: "small", maxDepth: 5, skipOpen: true}
		o.fill(ptr.Elem(), 0)
		if enc, err := asn.BerMarshalWithParams(ptr.Interface(), ""); err == nil { // (encoding only: the decoder stays cold)
			items = append(items, item{t, enc})
		}
	}
	tasks := 4 * runtime.GOMAXPROCS(0)
	start := make(chan struct{})
	var wg sync.WaitGroup
	var panics int32
	for g := 0; g < tasks; g++ {
		wg.Add(1)
		go func(g int) {
			defer wg.Done()
			defer func() {
				if recover() != nil {
					atomic.AddInt32(&panics, 1)
				}
			}()
			<-start
			for k := range items {
				it := items[(k*7+g*13)%len(items)]
				_ = asn.UnmarshalWithParams(it.enc, reflect.New(it.t).Interface(), "")
			}
		}(g)
	}
	close(start)
	wg.Wait()
	if panics > 0 {
		fmt.Println("RESULT panic")
		return nil
	}
	fmt.Println("RESULT ok")
	return nil
}

// berHot: values of every schema type are marshalled one after the other (the results copied at once), then marshalled and
// decoded again from many tasks at the same time: every concurrent result must be the octets of the sequential call, and
// must decode to the value it was made from.  data holds the seed.
func berHot(data []byte) error {
	seed, _ := strconv.ParseInt(strings.TrimSpace(string(data)), 10, 64)
	rnd := rand.New(rand.NewSource(seed))
	names := make([]string, 0, len(SchemaTypes))
	for n := range SchemaTypes {
		names = append(names, n)
	}
	sort.Strings(names)
	type item struct {
		t   reflect.Type
		ptr reflect.Value
		enc []byte
	}
	var items []item
	for _, n := range names {
		t := SchemaTypes[n]
		ptr := reflect.New(t)
		o := &fillOpt{rnd: rnd, present: "all", leaf: "small", maxDepth: 5, skipOpen: true}
		o.fill(ptr.Elem(), 0)
		if enc, err := asn.BerMarshalWithParams(ptr.Interface(), ""); err == nil {
			items = append(items, item{t, ptr, append([]byte(nil), enc...)})
		}
	}
	tasks := 4 * runtime.GOMAXPROCS(0)
	start := make(chan struct{})
	var wg sync.WaitGroup
	var panics, encdiff, decdiff int32
	for g := 0; g < tasks; g++ {
		wg.Add(1)
		go func(g int) {
			defer wg.Done()
			defer func() {
				if recover() != nil {
					atomic.AddInt32(&panics, 1)
				}
			}()
			<-start
			var held [][2][]byte
			for k := range items {
				it := items[(k*7+g*13)%len(items)]
				enc, err := asn.BerMarshalWithParams(it.ptr.Interface(), "")
				if err != nil || !bytes.Equal(enc, it.enc) {
					atomic.AddInt32(&encdiff, 1)
					continue
				}
				held = append(held, [2][]byte{enc, it.enc})
				back := reflect.New(it.t)
				if derr := asn.UnmarshalWithParams(enc, back.Interface(), ""); derr != nil || !equalModuloNilEmpty(it.ptr.Elem(), back.Elem()) {
					atomic.AddInt32(&decdiff, 1)
				}
			}
			for _, h := range held { // results stay what they were while other tasks keep encoding
				if !bytes.Equal(h[0], h[1]) {
					atomic.AddInt32(&encdiff, 1)
				}
			}
		}(g)
	}
	close(start)
	wg.Wait()
	switch {
	case panics > 0:
		fmt.Println("RESULT panic")
	case encdiff > 0:
		fmt.Println("RESULT encdiff")
	case decdiff > 0:
		fmt.Println("RESULT decdiff")
	default:
		fmt.Println("RESULT ok")
	}
	return nil
}

var fuzzAlphabet = []byte{0x00, 0x01, 0x02, 0x03, 0x04, 0x05, 0x0A, 0x0C, 0x10, 0x16, 0x1F, 0x20, 0x30, 0x31, 0x7F, 0x80, 0x81, 0x82, 0x83, 0x84, 0x9F, 0xA0, 0xBF, 0xFF}

func mutations(valid []byte, rnd *rand.Rand) map[string][][]byte {
	out := map[string][][]byte{}
	add := func(cls string, b []byte) { out[cls] = append(out[cls], append([]byte{}, b...)) }
	n := len(valid)
	for i := 0; i < n; i++ {
		if i < 48 || i%17 == 0 || i > n-6 {
			add("trunc", valid[:i])
		}
	}
	// walk the TLV headers: perturb every length octet and flip bits in identifier/length octets
	var hdrs [][2]int
	var walk func(off, end, depth int)
	walk = func(off, end, depth int) {
		for off < end && depth < 12 && len(hdrs) < 60 {
			t, ok := ParseTLVHeader(valid[:end], off)
			if !ok {
				return
			}
			hdrs = append(hdrs, [2]int{off, t.HdrLen})
			if t.Constructed {
				walk(off+t.HdrLen, off+t.HdrLen+t.Len, depth+1)
			}
			off += t.HdrLen + t.Len
		}
	}
	walk(0, n, 0)
	for _, h := range hdrs {
		for j := h[0]; j < h[0]+h[1]; j++ {
			for bit := uint(0); bit < 8; bit++ {
				m := append([]byte{}, valid...)
				m[j] ^= 1 << bit
				add("flip", m)
			}
		}
		lpos := h[0] + h[1] - 1 // last length octet
		for _, nv := range []byte{0x00, 0x01, 0x7f, 0x80, 0x81, 0x82, 0x83, 0x84, 0x88, 0xff} {
			m := append([]byte{}, valid...)
			m[lpos] = nv
			add("len", m)
		}
		m := append([]byte{}, valid...)
		m[lpos]++
		add("len", m)
		m2 := append([]byte{}, valid...)
		m2[lpos]--
		add("len", m2)
	}
	for k := 0; k < 16 && n > 0; k++ {
		m := append([]byte{}, valid...)
		m[rnd.Intn(n)] ^= byte(1 << uint(rnd.Intn(8)))
		add("flipc", m)
	}
	// tag numbers beyond 64 bits that are congruent to the element's own tag modulo 2^64 (ten and eleven tag octets):
	// the first two headers rewritten in the high-tag-number form of tag + k*2^64
	for hi, h := range hdrs {
		if hi >= 2 {
			break
		}
		t, ok := ParseTLVHeader(valid, h[0])
		if !ok {
			continue
		}
		rest := valid[h[0]+1:]
		if valid[h[0]]&0x1f == 0x1f { // already in the long form: skip its tag octets
			i := 0
			for i < len(rest) && rest[i]&0x80 != 0 {
				i++
			}
			rest = rest[i+1:]
		}
		for _, k := range []uint64{1, 2, 63} {
			for _, extra := range []int{0, 1} { // ten or eleven tag octets
				id := []byte{valid[h[0]] | 0x1f}
				for j := 0; j < extra; j++ {
					id = append(id, 0x81)
				}
				id = append(id, 0x80|byte(k<<1)|byte(uint64(t.Tag)>>63))
				for sh := 56; sh >= 0; sh -= 7 {
					b := byte(uint64(t.Tag)>>uint(sh)) & 0x7f
					if sh > 0 {
						b |= 0x80
					}
					id = append(id, b)
				}
				m := append(append(append([]byte{}, valid[:h[0]]...), id...), rest...)
				add("bigtag", m)
			}
		}
	}
	return out
}

func RunBer(in, out string) error {
	raw, err := os.ReadFile(in)
	if err != nil {
		return err
	}
	var cases []BerCase
	if err = json.Unmarshal(raw, &cases); err != nil {
		return err
	}
	f, err := os.Create(out)
	if err != nil {
		return err
	}
	defer f.Close()
	r := &berRunner{w: bufio.NewWriterSize(f, 1<<20)}
	defer r.w.Flush()
	devnull, _ := os.OpenFile(os.DevNull, os.O_WRONLY, 0)
	os.Stdout = devnull
	prims := map[string]reflect.Type{
		"int": reflect.TypeOf(int64(0)), "int32": reflect.TypeOf(int32(0)), "enum": asn.EnumeratedType, "bool": reflect.TypeOf(false),
		"octets": asn.OctetStringType, "utf8": asn.UTF8StringType, "bits": asn.BitStringType, "null": asn.NullType,
		"oid": asn.ObjectIdentifierType, "uint8": reflect.TypeOf(uint8(0)), "goint": reflect.TypeOf(int(0)),
	}
	fuzzTargets := []string{"int", "bool", "bits", "enum", "octets"}
	schemaFuzz := []string{"CHFRecord", "MultipleUnitUsage", "UsedUnitContainer", "SubscriptionID", "IPAddress"}
	for _, c := range cases {
		rnd := rand.New(rand.NewSource(c.Seed))
		switch c.Mode {
		case "prim":
			t := prims[c.Type]
			ptr := reflect.New(t)
			switch c.Type {
			case "int", "int32", "enum", "goint":
				n, _ := new(big.Int).SetString(c.Val, 10)
				ptr.Elem().SetInt(n.Int64())
			case "uint8":
				ptr.Elem().SetUint(7)
			case "bool":
				ptr.Elem().SetBool(c.Val == "1")
			case "null":
				ptr.Elem().SetBool(true)
			case "octets", "oid":
				n, _ := strconv.Atoi(c.Val)
				ptr.Elem().SetBytes(patOrRand(n, rnd))
			case "utf8":
				n, _ := strconv.Atoi(c.Val)
				b := patOrRand(n, rnd)
				if n < tokMin && n > 1 {
					b = multibyte(n, rnd) // character strings are measured in octets, not characters
				}
				ptr.Elem().SetString(string(b))
			case "bits":
				bl, _ := strconv.Atoi(c.Val)
				b := make([]byte, (bl+7)/8)
				for i := range b {
					b[i] = byte(rnd.Intn(256))
				}
				if bl%8 != 0 && rnd.Intn(2) == 0 { // (the unused bits may have any value in BER)
					b[len(b)-1] &= byte(0xff << uint(8-bl%8))
				} else if bl%8 != 0 {
					b[len(b)-1] |= 1
				}
				ptr.Elem().Set(reflect.ValueOf(asn.BitString{Bytes: b, BitLength: uint64(bl)}))
			}
			r.roundTrip(c, ptr, c.Params)
		case "schema", "shape":
			var t reflect.Type
			if c.Mode == "schema" {
				var ok bool
				if t, ok = SchemaTypes[c.Type]; !ok {
					return fmt.Errorf("unknown schema type %s", c.Type)
				}
			} else {
				t = shapeType(c)
			}
			ptr := reflect.New(t)
			o := &fillOpt{rnd: rnd, present: c.Present, leaf: c.Leaf, maxDepth: 7, only: c.Only}
			if c.Present == "deepest" {
				o.maxDepth = 64 // every level of the schema, along the deepest alternatives
			}
			if c.Mode == "shape" {
				// presence of each member is dictated by the shape
				v := ptr.Elem()
				base := 0
				if c.Top == "choice" {
					base = 1
				}
				for i, m := range c.Members {
					f := v.Field(base + i)
					if c.Top == "choice" {
						if m.Present {
							v.Field(0).SetInt(int64(i + 1))
						} else {
							continue
						}
					} else if m.Opt && !m.Present {
						continue
					}
					oo := &fillOpt{rnd: rnd, present: "all", leaf: c.Leaf, maxDepth: 4}
					if f.Kind() == reflect.Ptr {
						f.Set(reflect.New(f.Type().Elem()))
						oo.fill(f.Elem(), 1)
					} else {
						oo.fill(f, 1)
					}
				}
			} else if c.Present == "paths" {
				// every leaf of the schema embedded in this (top-level) type: one value per way down
				var paths [][]int
				leafPaths(t, map[reflect.Type]bool{}, nil, &paths)
				for pi, pth := range paths {
					if pi%16 != c.Only {
						continue // (the ways down are dealt out over 16 cases)
					}
					pp := reflect.New(t)
					o.fillAlong(pp.Elem(), pth)
					r.roundTrip(c, pp, c.Params)
				}
				continue
			} else {
				o.fill(ptr.Elem(), 0)
			}
			enc := r.roundTrip(c, ptr, c.Params)
			if c.N > 0 && enc != nil && len(enc) <= 4000 {
				// C16: decoder on mutations of this valid encoding
				muts := mutations(enc, rnd)
				keys := make([]string, 0, len(muts))
				for k := range muts {
					keys = append(keys, k)
				}
				sort.Strings(keys)
				// the budget is dealt out over the classes in turn (each class in a seeded random order)
				budget := c.N
				for _, cls := range keys {
					ms := muts[cls]
					rnd.Shuffle(len(ms), func(i, j int) { ms[i], ms[j] = ms[j], ms[i] })
				}
				for round := 0; budget > 0; round++ {
					any := false
					for _, cls := range keys {
						if round < len(muts[cls]) && budget > 0 {
							any = true
							budget--
							r.decodeOnly(c, cls, muts[cls][round], t, c.Type, c.Params)
						}
					}
					if !any {
						break
					}
				}
			}
		case "foreign":
			// a valid OBJECT IDENTIFIER from the reference, bare and where the schema places one (ManagementExtension inside
			// the record extensions of a CHF record); every mutation class plus each bit of the last two content octets
			valid := make([]byte, len(c.Bytes))
			for i, x := range c.Bytes {
				valid[i] = byte(x)
			}
			wrap := func(id []byte, content []byte) []byte {
				out := append([]byte{}, id...)
				if len(content) < 128 {
					out = append(out, byte(len(content)))
				} else {
					out = append(out, 0x81, byte(len(content)))
				}
				return append(out, content...)
			}
			forms := map[string]func(oid []byte) []byte{
				"oid":                  func(oid []byte) []byte { return oid },
				"ManagementExtension":  func(oid []byte) []byte { return wrap([]byte{0x30}, append(append([]byte{}, oid...), 0xa2, 0x02, 0x05, 0x00)) },
				"ManagementExtensions": func(oid []byte) []byte { return wrap([]byte{0x31}, wrap([]byte{0x30}, oid)) },
				"CHFRecord":            func(oid []byte) []byte { return wrap([]byte{0xbf, 0x81, 0x48}, wrap([]byte{0xac}, wrap([]byte{0x30}, oid))) },
			}
			var inputs [][]byte
			inputs = append(inputs, valid)
			for k := 1; k <= 2 && k < len(valid)-1; k++ {
				for bit := uint(0); bit < 8; bit++ {
					m := append([]byte{}, valid...)
					m[len(m)-k] ^= 1 << bit
					inputs = append(inputs, m)
				}
			}
			muts := mutations(valid, rnd)
			for _, cls := range []string{"trunc", "len", "flip", "flipc"} {
				for i, m := range muts[cls] {
					if i < 24 {
						inputs = append(inputs, m)
					}
				}
			}
			for _, tn := range []string{"oid", "ManagementExtension", "ManagementExtensions", "CHFRecord"} {
				t, ok := SchemaTypes[tn]
				if tn == "oid" {
					t, ok = prims["oid"], true
				}
				if !ok {
					continue
				}
				for _, in := range inputs {
					r.decodeOnly(c, "foreign", forms[tn](in), t, tn, "")
				}
			}
		case "fuzz":
			// every octet string of length 0..N over the alphabet, into primitive and schema targets
			var rec func(prefix []byte, depth int)
			rec = func(prefix []byte, depth int) {
				for _, tn := range fuzzTargets {
					r.decodeOnly(c, "short", prefix, prims[tn], tn, "")
				}
				for _, tn := range schemaFuzz {
					if t, ok := SchemaTypes[tn]; ok {
						r.decodeOnly(c, "short", prefix, t, tn, c.Params)
					}
				}
				if depth == c.N {
					return
				}
				for _, b := range fuzzAlphabet {
					if c.Only >= 0 && depth == 0 && int(b) != c.Only {
						continue
					}
					rec(append(append([]byte{}, prefix...), b), depth+1)
				}
			}
			if c.Only >= 0 {
				for _, b := range fuzzAlphabet {
					if int(b) == c.Only {
						rec([]byte{b}, 1)
					}
				}
			} else {
				rec([]byte{}, 0)
			}
		case "trailing":
			// an element whose length says 0 (or 1) followed by further octets: the contents of an element are the octets its
			// length announces, not what follows it (all 3-octet strings belong to the thorough tier; this class is the
			// part of them that found a defect)
			for _, tag := range []byte{0x00, 0x01, 0x02, 0x03, 0x04, 0x05, 0x0A, 0x0C, 0x16, 0x30, 0x31, 0x80, 0x81, 0xA0, 0xBF} {
				heads := [][]byte{{tag, 0x00}, {tag, 0x01, 0x07}, {tag, 0x81, 0x00}}
				if tag == 0xBF {
					heads = [][]byte{{tag, 0x1F, 0x00}, {tag, 0x1F, 0x01, 0x07}}
				}
				for _, h := range heads {
					for _, tail := range [][]byte{{0x00}, {0x01}, {0xFF}, {0x02, 0x01, 0x05}} {
						in := append(append([]byte{}, h...), tail...)
						for _, tn := range fuzzTargets {
							r.decodeOnly(c, "trailing", in, prims[tn], tn, "")
						}
						for _, tn := range []string{"UsedUnitContainer", "IPAddress", "LocalSequenceNumber"} {
							if t, ok := SchemaTypes[tn]; ok {
								r.decodeOnly(c, "trailing", in, t, tn, c.Params)
							}
						}
					}
				}
			}
		case "deep":
			// inputs whose only remarkable property is size: hundreds of thousands of repeated or properly nested
			// constructed headers.  A decoder whose recursion depth follows the input dies with a fatal (unrecoverable)
			// stack overflow, so each decode runs in a child process and the child's fate is the result.
			deepTargets := []string{"int", "bool", "utf8", "enum", "octets"}
			deepSchema := []string{"CHFRecord", "CallDuration", "LocalSequenceNumber", "ManagementExtensions", "MultipleUnitUsage"}
			for name, data := range deepInputs(c.N) {
				for _, tn := range deepTargets {
					r.decodeChild(c, "deep:"+name, data, prims[tn], tn, "")
				}
				for _, tn := range deepSchema {
					if t, ok := SchemaTypes[tn]; ok {
						r.decodeChild(c, "deep:"+name, data, t, tn, c.Params)
					}
				}
			}
		case "cold":
			// concurrent decoding in processes that have not decoded anything before (c.N fresh processes)
			for i := 0; i < c.N; i++ {
				r.decodeChild(c, fmt.Sprintf("cold:%d", i), []byte(fmt.Sprint(c.Seed+int64(i))), SchemaTypes["CHFRecord"], "@cold", "")
			}
		case "sizes":
			// primitive elements of every content length 0..17 (and 127, 128) with contents at the edges of each type's range:
			// all zero, all ones, a leading 00 / ff / 7f / 80 before ones or zeros; bare, under a context tag, and as the
			// member of a schema SEQUENCE
			fills := func(n int) [][]byte {
				mk := func(first, rest byte) []byte {
					b := bytes.Repeat([]byte{rest}, n)
					if n > 0 {
						b[0] = first
					}
					return b
				}
				return [][]byte{mk(0, 0), mk(0xff, 0xff), mk(0, 0xff), mk(0xff, 0), mk(0x7f, 0xff), mk(0x80, 0), mk(1, 0), mk(0, 0x80)}
			}
			tagOf := map[string]byte{"int": 2, "int32": 2, "goint": 2, "enum": 10, "bool": 1, "bits": 3, "octets": 4, "utf8": 12, "null": 5, "oid": 6}
			names := make([]string, 0, len(tagOf))
			for n := range tagOf {
				names = append(names, n)
			}
			sort.Strings(names)
			lens := []int{}
			for n := 0; n <= 17; n++ {
				lens = append(lens, n)
			}
			lens = append(lens, 127, 128)
			hdr := func(id byte, n int) []byte {
				if n < 128 {
					return []byte{id, byte(n)}
				}
				return []byte{id, 0x81, byte(n)}
			}
			for _, tn := range names {
				for _, n := range lens {
					for _, f := range fills(n) {
						r.decodeOnly(c, "sizes", append(hdr(tagOf[tn], n), f...), prims[tn], tn, "")
						r.decodeOnly(c, "sizes", append(hdr(0x83, n), f...), prims[tn], tn, "tagNum:3")
					}
				}
			}
			// as members: UsedUnitContainer.dataVolumeUplink [3] / dataTotalVolume [1] (INTEGER), localSequenceNumber [2]
			if t, ok := SchemaTypes["UsedUnitContainer"]; ok {
				for _, n := range lens {
					for _, f := range fills(n) {
						for _, tag := range []byte{0x81, 0x82, 0x83, 0x84, 0x85, 0x86, 0x87, 0x88} {
							inner := append(hdr(tag, n), f...)
							r.decodeOnly(c, "sizes", append(hdr(0x30, len(inner)), inner...), t, "UsedUnitContainer", "")
						}
					}
				}
			}
		case "hot":
			// concurrent marshalling / decoding of the same values in fresh processes
			for i := 0; i < c.N; i++ {
				r.decodeChild(c, fmt.Sprintf("hot:%d", i), []byte(fmt.Sprint(c.Seed+int64(i))), SchemaTypes["CHFRecord"], "@hot", "")
			}
		case "types":
			names := make([]string, 0, len(SchemaTypes))
			for n := range SchemaTypes {
				names = append(names, n)
			}
			sort.Strings(names)
			r.seq++
			r.emit(Node{"trace": c.ID, "seq": r.seq, "action": "types", "names": names})
		}
	}
	return nil
}

// multibyte returns exactly n octets of valid UTF-8 in which most characters take 2, 3 or 4 octets.
func multibyte(n int, rnd *rand.Rand) []byte {
	runes := []string{"\u00e9", "\u00eb", "\u6771", "\u4eac", "\u90fd", "\U0001F600", "z"}
	var b []byte
	for len(b) < n {
		r := runes[rnd.Intn(len(runes))]
		if len(b)+len(r) > n {
			r = "z"
		}
		b = append(b, r...)
	}
	return b
}

func patOrRand(n int, rnd *rand.Rand) []byte {
	if n >= tokMin {
		return patBytes(n, 1)
	}
	b := make([]byte, n)
	for i := range b {
		b[i] = byte(32 + rnd.Intn(90))
	}
	return b
}
