package verifharness

// Driver for C09 (and the schedule half of C10): concurrent requests against the real router.
// With a schedule (a sequence of hook passes enumerated by TLC from spec/ChfConc.tla) the verif hooks
// double as scheduler gates and the interleaving is replayed deterministically; without one the requests
// run ungated (under the race detector when the binary is built with -race).

import (
	"bufio"
	"bytes"
	"encoding/json"
	"fmt"
	"net/http/httptest"
	"os"
	"runtime"
	"strconv"
	"strings"
	"sync"
	"time"

	chf_context "github.com/free5gc/chf/internal/context"
	"github.com/free5gc/chf/internal/verifhook"
)

type ConcReq struct {
	Kind string `json:"kind"`
	U    string `json:"u"`
	S    string `json:"s"`
	// Shape: "" = the request reports usage and asks for units; "plain" = a release without usage (the session simply ends)
	Shape string `json:"shape"`
}

type SchedEv struct {
	T int    `json:"t"`
	P string `json:"p"`
}

type ConcCase struct {
	ID       string    `json:"id"`
	Mix      []ConcReq `json:"mix"`
	Existing []ConcReq `json:"existing"`
	Schedule []SchedEv `json:"schedule"`
	Gated    bool      `json:"gated"`
	Procs    int       `json:"procs"`
	Repeat   int       `json:"repeat"`
}

func gid() uint64 {
	var buf [64]byte
	n := runtime.Stack(buf[:], false)
	f := strings.Fields(string(buf[:n]))
	if len(f) < 2 {
		return 0
	}
	id, _ := strconv.ParseUint(f[1], 10, 64)
	return id
}

type concSched struct {
	mu      sync.Mutex
	threads map[uint64]int // goroutine -> thread index (1-based)
	parked  map[int]string // thread -> hook point it is parked at
	gates   map[int]chan struct{}
	gating  bool
	events  []map[string]any
	ueIDs   map[any]int
	arrived chan int
}

func (s *concSched) ueID(kv []any) int {
	for i := 0; i+1 < len(kv); i += 2 {
		if kv[i] == "ue" {
			if id, ok := s.ueIDs[kv[i+1]]; ok {
				return id
			}
			id := len(s.ueIDs) + 1
			s.ueIDs[kv[i+1]] = id
			return id
		}
	}
	return 0
}

func (s *concSched) sink(point string, kv ...any) {
	g := gid()
	s.mu.Lock()
	t, ok := s.threads[g]
	if !ok {
		s.mu.Unlock()
		return
	}
	ev := map[string]any{"n": len(s.events) + 1, "t": t, "p": point, "ue": s.ueID(kv), "supi": ""}
	for i := 0; i+1 < len(kv); i += 2 {
		if kv[i] == "supi" {
			ev["supi"] = fmt.Sprint(kv[i+1])
		}
	}
	s.events = append(s.events, ev)
	if !s.gating {
		s.mu.Unlock()
		return
	}
	ch := make(chan struct{})
	s.gates[t] = ch
	s.parked[t] = point
	s.mu.Unlock()
	select {
	case s.arrived <- t:
	default:
	}
	<-ch
}

func (s *concSched) waitParked(t int, p string, d time.Duration) (string, bool) {
	deadline := time.Now().Add(d)
	for {
		s.mu.Lock()
		at, ok := s.parked[t]
		s.mu.Unlock()
		if ok {
			return at, at == p
		}
		if time.Now().After(deadline) {
			return "", false
		}
		select {
		case <-s.arrived:
		case <-time.After(5 * time.Millisecond):
		}
	}
}

func (s *concSched) release(t int) {
	s.mu.Lock()
	ch := s.gates[t]
	delete(s.gates, t)
	delete(s.parked, t)
	s.mu.Unlock()
	if ch != nil {
		close(ch)
	}
}

func (s *concSched) openAll() {
	s.mu.Lock()
	s.gating = false
	gs := s.gates
	s.gates = map[int]chan struct{}{}
	s.parked = map[int]string{}
	s.mu.Unlock()
	for _, ch := range gs {
		close(ch)
	}
}

func RunConc(env *Env, prefix, in, out string) error {
	raw, err := os.ReadFile(in)
	if err != nil {
		return err
	}
	var cases []ConcCase
	if err = json.Unmarshal(raw, &cases); err != nil {
		return err
	}
	f, err := os.Create(out)
	if err != nil {
		return err
	}
	defer f.Close()
	w := bufio.NewWriterSize(f, 1<<20)
	defer w.Flush()
	base := "/nchf-convergedcharging/v3"
	seq := 0
	for _, c := range cases {
		reps := c.Repeat
		if reps < 1 {
			reps = 1
		}
		if c.Procs > 0 {
			runtime.GOMAXPROCS(c.Procs)
		}
		for rep := 0; rep < reps; rep++ {
			seq++
			env.ResetState(0)
			supi := func(u string) string { return "imsi-" + prefix + u }
			us := map[string]bool{}
			for _, r := range append(append([]ConcReq{}, c.Mix...), c.Existing...) {
				us[r.U] = true
			}
			for u := range us {
				env.PutAccount(supi(u), 1, "1000000", "2")
				_ = os.Remove("/tmp/" + supi(u) + ".cdr")
			}
			lsn := 0
			serve := func(method, path, body string) (int, string) {
				rec := httptest.NewRecorder()
				req := httptest.NewRequest(method, base+path, bytes.NewReader([]byte(body)))
				req.Header.Set("Content-Type", "application/json")
				env.Router.ServeHTTP(rec, req)
				return rec.Code, rec.Header().Get("Location")
			}
			createBody := func(u string, id int) string {
				return fmt.Sprintf(`{"subscriberIdentifier":%q,"nfConsumerIdentification":{"nFName":"c","nodeFunctionality":"SMF"},"invocationSequenceNumber":1,"chargingId":%d,"notifyUri":"%s/n"}`,
					supi(u), id, env.SinkURL)
			}
			usageBody := func(u string, used int, l int) string {
				return fmt.Sprintf(`{"subscriberIdentifier":%q,"invocationSequenceNumber":2,"multipleUnitUsage":[{"ratingGroup":1,"requestedUnit":{"totalVolume":10},"usedUnitContainer":[{"quotaManagementIndicator":"ONLINE_CHARGING","totalVolume":%d,"localSequenceNumber":%d}]}]}`,
					supi(u), used, l)
			}
			refOf := func(loc string) string {
				if i := strings.LastIndex(loc, "/"); i >= 0 {
					return loc[i+1:]
				}
				return ""
			}
			// sessions that exist before the concurrent phase
			refs := map[string]string{} // u|s -> reference
			for i, e := range c.Existing {
				_, loc := serve("POST", "/chargingdata", createBody(e.U, 100+i))
				refs[e.U+"|"+e.S] = refOf(loc)
			}
			// a consumer that reacts to the re-authorisation notification at once: it sends an update for the subscriber's session
			// from inside its notification handler and answers the notification only when that update has been answered (or
			// after 6 s)
			reauth := map[string]any{"asked": false, "status": 0, "ms": int64(0), "timeout": false}
			env.nmu.Lock()
			env.SinkHook = nil
			env.nmu.Unlock()
			for _, r := range c.Mix {
				if r.Kind == "recharge" && r.Shape == "reauth" {
					u0 := r.U
					var once sync.Once
					hook := func(Notif) {
						once.Do(func() {
							var ref string
							for k, v := range refs {
								if strings.HasPrefix(k, u0+"|") {
									ref = v
								}
							}
							t0 := time.Now()
							d := make(chan int, 1)
							go func() {
								st, _ := serve("POST", "/chargingdata/"+ref+"/update", usageBody(u0, 0, 9000))
								d <- st
							}()
							reauth["asked"] = true
							select {
							case st := <-d:
								reauth["status"] = st
								reauth["ref"] = ref
								reauth["u"] = u0
							case <-time.After(6 * time.Second):
								reauth["timeout"] = true
							}
							reauth["ms"] = time.Since(t0).Milliseconds()
						})
					}
					env.nmu.Lock()
					env.SinkHook = hook
					env.nmu.Unlock()
				}
			}
			sched := &concSched{threads: map[uint64]int{}, parked: map[int]string{}, gates: map[int]chan struct{}{}, gating: c.Gated,
				ueIDs: map[any]int{}, arrived: make(chan int, 64)}
			verifhook.Sink = sched.sink
			results := make([]map[string]any, len(c.Mix))
			var wg sync.WaitGroup
			start := make(chan struct{})
			for i, r := range c.Mix {
				wg.Add(1)
				lsn++
				myLsn := lsn
				go func(i int, r ConcReq, myLsn int) {
					defer wg.Done()
					sched.mu.Lock()
					sched.threads[gid()] = i + 1
					sched.mu.Unlock()
					<-start
					sched.sink("start")
					res := map[string]any{"t": i + 1, "kind": r.Kind, "u": r.U, "s": r.S, "status": 0, "ref": "", "lsn": 0, "used": 0, "rg": ""}
					defer func() {
						if p := recover(); p != nil {
							res["status"] = -9
						}
						results[i] = res
					}()
					switch r.Kind {
					case "create":
						st, loc := serve("POST", "/chargingdata", createBody(r.U, 200+i))
						res["status"] = st
						res["ref"] = refOf(loc)
					case "update":
						st, _ := serve("POST", "/chargingdata/"+refs[r.U+"|"+r.S]+"/update", usageBody(r.U, 3, myLsn))
						res["status"] = st
						res["ref"] = refs[r.U+"|"+r.S]
						res["lsn"] = myLsn
						res["used"] = 3
					case "release":
						if r.Shape == "plain" {
							st, _ := serve("POST", "/chargingdata/"+refs[r.U+"|"+r.S]+"/release",
								fmt.Sprintf(`{"subscriberIdentifier":%q,"invocationSequenceNumber":2}`, supi(r.U)))
							res["status"] = st
							res["ref"] = refs[r.U+"|"+r.S]
							break
						}
						st, _ := serve("POST", "/chargingdata/"+refs[r.U+"|"+r.S]+"/release", usageBody(r.U, 2, myLsn))
						res["status"] = st
						res["ref"] = refs[r.U+"|"+r.S]
						res["lsn"] = myLsn
						res["used"] = 2
					case "recharge":
						// (for a recharge the session field names the rating group; default 1)
						rg := "1"
						if r.S != "" && r.S[0] >= '0' && r.S[0] <= '9' {
							rg = r.S
						}
						res["rg"] = rg
						st, _ := serve("PUT", "/recharging/"+supi(r.U)+"_"+rg, "")
						res["status"] = st
					}
				}(i, r, myLsn)
			}
			// all request goroutines are registered before any of them runs
			for {
				sched.mu.Lock()
				n := len(sched.threads)
				sched.mu.Unlock()
				if n == len(c.Mix) {
					break
				}
				time.Sleep(time.Millisecond)
			}
			close(start)
			unreplayable := ""
			if c.Gated {
				for k, ev := range c.Schedule {
					at, ok := sched.waitParked(ev.T, ev.P, 3*time.Second)
					if !ok {
						unreplayable = fmt.Sprintf("step %d: thread %d expected at %s, found at %q", k+1, ev.T, ev.P, at)
						break
					}
					sched.release(ev.T)
					// let the released thread run to its next hook, to a lock, or to the end
					sched.waitParked(ev.T, "\x00", 120*time.Millisecond)
				}
				sched.openAll()
			}
			done := make(chan struct{})
			go func() { wg.Wait(); close(done) }()
			missed := false
			select {
			case <-done:
			case <-time.After(25 * time.Second):
				missed = true
				sched.openAll()
			}
			verifhook.Sink = nil
			// what the concurrent phase left of the recharges: notifications received per rating group, rating type per group
			time.Sleep(30 * time.Millisecond)
			notifRgs := []int32{}
			for _, nt := range env.TakeNotifs() {
				notifRgs = append(notifRgs, nt.Rgs...)
			}
			rtypes := map[string]map[string]string{}
			for u := range us {
				rtypes[u] = map[string]string{}
				if ue, ok := chf_context.GetSelf().ChfUeFindBySupi(supi(u)); ok && !missed {
					// (a lock that a request of the mix left behind must not take the recorder with it)
					for try := 0; try < 40; try++ {
						if ue.CULock.TryLock() {
							for rg, t := range ue.RatingType {
								rtypes[u][strconv.Itoa(int(rg))] = rtypeName(t)
							}
							ue.CULock.Unlock()
							break
						}
						time.Sleep(5 * time.Millisecond)
					}
				}
			}
			// follow-ups: every acknowledged session must still be usable
			follow := []any{}
			if !missed {
				type sess struct{ u, ref string }
				var live []sess
				released := map[string]bool{}
				for _, r := range results {
					if r["kind"] == "release" && r["status"] == 204 {
						released[r["u"].(string)+"|"+r["ref"].(string)] = true
					}
				}
				for k, ref := range refs {
					u := strings.SplitN(k, "|", 2)[0]
					if !released[u+"|"+ref] {
						live = append(live, sess{u, ref})
					}
				}
				for _, r := range results {
					if r["kind"] == "create" && r["status"] == 201 {
						live = append(live, sess{r["u"].(string), r["ref"].(string)})
					}
				}
				for _, s := range live {
					lsn++
					fu := map[string]any{"u": s.u, "ref": s.ref, "lsn": lsn, "used": 1, "update": -1, "release": -1, "timeout": false}
					d := make(chan struct{})
					go func() {
						defer close(d)
						st, _ := serve("POST", "/chargingdata/"+s.ref+"/update", usageBody(s.u, 1, lsn))
						fu["update"] = st
						st, _ = serve("POST", "/chargingdata/"+s.ref+"/release", fmt.Sprintf(`{"subscriberIdentifier":%q,"invocationSequenceNumber":9}`, supi(s.u)))
						fu["release"] = st
					}()
					select {
					case <-d:
					case <-time.After(20 * time.Second):
						fu["timeout"] = true
					}
					follow = append(follow, fu)
					if fu["timeout"] == true {
						break
					}
				}
			}
			// quiescent projection
			q := map[string]any{}
			self := chf_context.GetSelf()
			for u := range us {
				e := map[string]any{"known": false}
				if ue, ok := self.ChfUeFindBySupi(supi(u)); ok && !missed {
					quota, _, _ := env.GetAccount(supi(u), 1)
					qi, _ := strconv.ParseInt(quota, 10, 64)
					recs := map[string]any{}
					memRecs := []any{}
					for _, r := range ue.Records {
						pr := projRecord(r)
						ref := pr["ref"].(string)
						ml := []int64{}
						for _, cont := range pr["conts"].([]any) {
							ml = append(ml, cont.([]int64)[0])
						}
						memRecs = append(memRecs, map[string]any{"ref": ref, "lsns": ml})
						var l []int64
						if old, ok := recs[ref].([]int64); ok {
							l = old
						}
						for _, cont := range pr["conts"].([]any) {
							l = append(l, cont.([]int64)[0])
						}
						if l == nil {
							l = []int64{}
						}
						recs[ref] = l
					}
					// the subscriber's CDR file as the last operation left it, read by the independent TLV walker
					fs := FileSummary("/tmp/" + supi(u) + ".cdr")
					fileRecs := []any{}
					fileOk := true
					if ex, _ := fs["exists"].(bool); ex {
						if p, _ := fs["parsed"].(bool); !p {
							fileOk = false
						}
						if c, _ := fs["complete"].(bool); !c {
							fileOk = false
						}
						if rl, ok := fs["recs"].([]any); ok {
							for _, x := range rl {
								m := x.(map[string]any)
								if tv, _ := m["tlvOk"].(bool); !tv {
									fileOk = false
									continue
								}
								fl := []int64{}
								if cs, ok := m["conts"].([]any); ok {
									for _, cont := range cs {
										fl = append(fl, cont.([]int64)[0])
									}
								}
								fileRecs = append(fileRecs, map[string]any{"ref": m["ref"], "lsns": fl})
							}
						}
					}
					e = map[string]any{"known": true, "quota": clamp31(qi), "reserved": clamp31(ue.ReservedQuota[1]), "lsns": recs,
						"memRecs": memRecs, "fileRecs": fileRecs, "fileOk": fileOk}
				}
				q[u] = e
			}
			results2 := []any{}
			for _, r := range results {
				if r == nil {
					r = map[string]any{"t": 0, "kind": "lost", "u": "", "s": "", "status": -8, "ref": "", "lsn": 0, "used": 0, "rg": ""}
				}
				results2 = append(results2, r)
			}
			if reauth["asked"] == true && reauth["status"] == 200 {
				// the consumer's own update is a request like the others: its container is expected in the record
				results2 = append(results2, map[string]any{"t": 0, "kind": "update", "u": reauth["u"], "s": "", "status": 200, "ref": reauth["ref"],
					"lsn": 9000, "used": 0, "rg": ""})
			}
			sched.mu.Lock()
			evs := sched.events
			sched.mu.Unlock()
			if evs == nil {
				evs = []map[string]any{}
			}
			b, _ := json.Marshal(map[string]any{"trace": c.ID, "seq": seq, "action": "conc", "gated": c.Gated, "mix": c.Mix, "existing": c.Existing,
				"events": evs, "results": results2, "follow": follow, "quiescent": q, "missed": missed, "unreplayable": unreplayable,
				"credited": 1000000, "cost": 2, "notifRgs": notifRgs, "rtypes": rtypes, "reauth": reauth})
			_, _ = w.Write(b)
			_ = w.WriteByte('\n')
			_ = w.Flush()
			stuck := missed
			for _, fu := range follow {
				if m, ok := fu.(map[string]any); ok && m["timeout"] == true {
					stuck = true
				}
			}
			if stuck {
				// goroutines of this repetition are stuck: nothing more can be trusted in this process
				return nil
			}
		}
	}
	return nil
}
