package verifharness

// Second half of C17: the same field vectors pushed through the PRODUCT's own client functions
// (internal/abmf.SendAccountDebitRequest, internal/rating.SendServiceUsageRequest) over a real TLS Diameter
// connection to programmable harness peers -- one after the other in the same process, so that anything the client
// keeps between calls shows.  Request vectors: the peer logs what it received.  Answer vectors: the peer answers with
// the vector, the function's return value is logged.

import (
	"bufio"
	"bytes"
	"encoding/json"
	"fmt"
	"os"
	"reflect"
	"sync"
	"time"

	"github.com/fiorix/go-diameter/diam"
	"github.com/fiorix/go-diameter/diam/datatype"
	"github.com/fiorix/go-diameter/diam/dict"
	"github.com/fiorix/go-diameter/diam/sm"

	charging_datatype "github.com/free5gc/chf/ccs_diameter/datatype"
	charging_dict "github.com/free5gc/chf/ccs_diameter/dict"
	"github.com/free5gc/chf/internal/abmf"
	chf_context "github.com/free5gc/chf/internal/context"
	"github.com/free5gc/chf/internal/rating"
)

type progPeer struct {
	mu      sync.Mutex
	answer  any            // struct to answer with (nil: minimal answer)
	lastReq map[string]any // flattened request as decoded by the peer
}

func RunDiamChf(prefix, in, out string) error {
	raw, err := os.ReadFile(in)
	if err != nil {
		return err
	}
	var vecs []DiamVec
	if err = json.Unmarshal(raw, &vecs); err != nil {
		return err
	}
	f, err := os.Create(out)
	if err != nil {
		return err
	}
	defer f.Close()
	w := bufio.NewWriterSize(f, 1<<20)
	defer w.Flush()
	emit := func(v any) {
		b, _ := json.Marshal(v)
		_, _ = w.Write(b)
		_ = w.WriteByte('\n')
	}
	env, err := StartEnv(EnvOpts{NoRating: true, NoAbmf: true})
	if err != nil {
		return err
	}
	defer env.Close()
	_ = dict.Default.Load(bytes.NewReader([]byte(charging_dict.RateDictionary)))
	_ = dict.Default.Load(bytes.NewReader([]byte(charging_dict.AbmfDictionary)))
	settings := &sm.Settings{OriginHost: "server", OriginRealm: "go-diameter", VendorID: 13, ProductName: "go-diameter", FirmwareRevision: 1}
	rfp, abp := &progPeer{}, &progPeer{}
	serve := func(p *progPeer, reqName, reqMsg string, reqType reflect.Type, minimal func() any) diam.HandlerFunc {
		return func(c diam.Conn, m *diam.Message) {
			dst := reflect.New(reqType)
			got := map[string]any{}
			if err := m.Unmarshal(dst.Interface()); err == nil {
				flatten(dst.Elem(), reqMsg, got)
			} else {
				got["__unmarshal_error"] = err.Error()
			}
			p.mu.Lock()
			p.lastReq = got
			ans := p.answer
			p.mu.Unlock()
			if ans == nil {
				ans = minimal()
			}
			a := m.Answer(diam.Success)
			a.AVP = nil
			if err := a.Marshal(ans); err != nil {
				return
			}
			_, _ = a.WriteTo(c)
		}
	}
	rmux := sm.New(settings)
	rmux.HandleFunc("SUR", serve(rfp, "SUR", "SUR", msgTypes["SUR"], func() any {
		return &charging_datatype.ServiceUsageResponse{SessionId: "min", EventTimestamp: datatype.Time(time.Now())}
	}))
	amux := sm.New(settings)
	amux.HandleFunc("CCR", serve(abp, "CCR", "CCR", msgTypes["CCR"], func() any {
		return &charging_datatype.AccountDebitResponse{SessionId: "min", EventTimestamp: datatype.Time(time.Now())}
	}))
	go func() {
		_ = diam.ListenAndServeTLS(fmt.Sprintf("127.0.0.1:%d", env.RfPort), env.Pem, env.Key, rmux, nil)
	}()
	go func() {
		_ = diam.ListenAndServeTLS(fmt.Sprintf("127.0.0.1:%d", env.AbPort), env.Pem, env.Key, amux, nil)
	}()
	if !WaitPort(env.RfPort, 5*time.Second) || !WaitPort(env.AbPort, 5*time.Second) {
		return fmt.Errorf("programmable peers did not come up")
	}
	// two subscribers used alternately: what one subscriber's exchange leaves behind must not reach the other's
	ues := []*chf_context.ChfUe{}
	for i := 0; i < 2; i++ {
		ue, err := chf_context.GetSelf().NewCHFUe(fmt.Sprintf("imsi-%s%d", prefix, i+1))
		if err != nil {
			return err
		}
		ues = append(ues, ue)
	}
	drop := func(m map[string]any, msg string) {
		// the client functions address the request themselves
		delete(m, msg+"/DestinationRealm")
		delete(m, msg+"/DestinationHost")
	}
	seq := 0
	for i, v := range vecs {
		t, ok := msgTypes[v.Msg]
		if !ok {
			continue
		}
		seq++
		ue := ues[i%2]
		src := reflect.New(t)
		fl := &filler{v: v, sent: map[string]any{}, nowSec: time.Now().Unix()}
		fl.fill(src.Elem(), v.Msg)
		res := map[string]any{"err": "", "recv": map[string]any{}}
		func() {
			defer func() {
				if r := recover(); r != nil {
					res["err"] = "panic: " + fmt.Sprint(r)
				}
			}()
			switch v.Msg {
			case "CCR":
				abp.mu.Lock()
				abp.answer, abp.lastReq = nil, nil
				abp.mu.Unlock()
				if _, err := abmf.SendAccountDebitRequest(ue, src.Interface().(*charging_datatype.AccountDebitRequest)); err != nil {
					res["err"] = "send: " + err.Error()
					return
				}
				abp.mu.Lock()
				res["recv"] = abp.lastReq
				abp.mu.Unlock()
			case "SUR":
				rfp.mu.Lock()
				rfp.answer, rfp.lastReq = nil, nil
				rfp.mu.Unlock()
				if _, err := rating.SendServiceUsageRequest(ue, src.Interface().(*charging_datatype.ServiceUsageRequest)); err != nil {
					res["err"] = "send: " + err.Error()
					return
				}
				rfp.mu.Lock()
				res["recv"] = rfp.lastReq
				rfp.mu.Unlock()
			case "CCA":
				abp.mu.Lock()
				abp.answer = src.Interface()
				abp.mu.Unlock()
				resp, err := abmf.SendAccountDebitRequest(ue, &charging_datatype.AccountDebitRequest{SessionId: "q", EventTimestamp: datatype.Time(time.Now())})
				if err != nil {
					res["err"] = "send: " + err.Error()
					return
				}
				recv := map[string]any{}
				flatten(reflect.ValueOf(resp).Elem(), "CCA", recv)
				res["recv"] = recv
			case "SUA":
				rfp.mu.Lock()
				rfp.answer = src.Interface()
				rfp.mu.Unlock()
				resp, err := rating.SendServiceUsageRequest(ue, &charging_datatype.ServiceUsageRequest{SessionId: "q", ActualTime: datatype.Time(time.Now())})
				if err != nil {
					res["err"] = "send: " + err.Error()
					return
				}
				recv := map[string]any{}
				flatten(reflect.ValueOf(resp).Elem(), "SUA", recv)
				res["recv"] = recv
			}
		}()
		sent := fl.sent
		if v.Msg == "CCR" || v.Msg == "SUR" {
			drop(sent, v.Msg)
			if m, ok := res["recv"].(map[string]any); ok {
				drop(m, v.Msg)
			}
		}
		if res["recv"] == nil {
			res["recv"] = map[string]any{}
		}
		emit(map[string]any{"trace": v.ID, "seq": seq, "action": "wire", "via": "chf-client", "msg": v.Msg, "cls": v.Cls, "present": v.Present,
			"k": v.K, "strs": v.Strs, "sent": sent, "result": res, "nleaf": fl.leaf, "nptr": fl.ptr})
	}
	return nil
}
