package verifharness

// Driver for C17: (a) tables extracted from the code -- every avp struct tag of the four message structs
// with its Go type, resolved against the dictionaries the components load; (b) field vectors sent through
// real Marshal -> Serialize -> ReadMessage -> Unmarshal and logged as sent / received leaf maps.

import (
	"bufio"
	"bytes"
	"encoding/json"
	"fmt"
	"math/big"
	"os"
	"reflect"
	"regexp"
	"strings"
	"time"

	"github.com/fiorix/go-diameter/diam"
	"github.com/fiorix/go-diameter/diam/datatype"
	"github.com/fiorix/go-diameter/diam/dict"

	charging_code "github.com/free5gc/chf/ccs_diameter/code"
	charging_datatype "github.com/free5gc/chf/ccs_diameter/datatype"
	charging_dict "github.com/free5gc/chf/ccs_diameter/dict"
)

type DiamVec struct {
	ID      string `json:"id"`
	Msg     string `json:"msg"`
	Cls     string `json:"cls"`
	Present string `json:"present"` // all | none | only | except
	K       int    `json:"k"`
	Strs    string `json:"strs"`
	// Hm / H: numeric leaves of different classes in one message: "hole" = the H-th numeric leaf is zero (absent) while the
	// others are of class Cls; "solo" = only the H-th numeric leaf is of class Cls, the others are zero
	Hm string `json:"hm"`
	H  int    `json:"h"`
}

var msgTypes = map[string]reflect.Type{
	"SUR": reflect.TypeOf(charging_datatype.ServiceUsageRequest{}),
	"SUA": reflect.TypeOf(charging_datatype.ServiceUsageResponse{}),
	"CCR": reflect.TypeOf(charging_datatype.AccountDebitRequest{}),
	"CCA": reflect.TypeOf(charging_datatype.AccountDebitResponse{}),
}

func goKind(t reflect.Type) string {
	switch t {
	case reflect.TypeOf(datatype.Unsigned32(0)):
		return "Unsigned32"
	case reflect.TypeOf(datatype.Unsigned64(0)):
		return "Unsigned64"
	case reflect.TypeOf(datatype.Integer32(0)):
		return "Integer32"
	case reflect.TypeOf(datatype.Integer64(0)):
		return "Integer64"
	case reflect.TypeOf(datatype.Enumerated(0)):
		return "Enumerated"
	case reflect.TypeOf(datatype.UTF8String("")):
		return "UTF8String"
	case reflect.TypeOf(datatype.OctetString("")):
		return "OctetString"
	case reflect.TypeOf(datatype.DiameterIdentity("")):
		return "DiameterIdentity"
	case reflect.TypeOf(datatype.Time{}):
		return "Time"
	case reflect.TypeOf(datatype.Grouped{}):
		return "Grouped"
	case reflect.TypeOf(datatype.IPFilterRule("")):
		return "IPFilterRule"
	case reflect.TypeOf(datatype.Address{}):
		return "Address"
	}
	if t.Kind() == reflect.Ptr && t.Elem().Kind() == reflect.Struct {
		return "Grouped"
	}
	if t.Kind() == reflect.Ptr && t.Elem() == reflect.TypeOf(datatype.Grouped{}) {
		return "Grouped"
	}
	if t.Kind() == reflect.Struct {
		return "Grouped"
	}
	if t.Kind() == reflect.Int32 {
		return "Enumerated" // named enumeration types are defined on datatype.Enumerated (int32)
	}
	return "other:" + t.String()
}

func collectTags(t reflect.Type, owner string, seen map[reflect.Type]bool, out *[]map[string]any) {
	if seen[t] {
		return
	}
	seen[t] = true
	for i := 0; i < t.NumField(); i++ {
		f := t.Field(i)
		name := f.Tag.Get("avp")
		if idx := strings.Index(name, ","); idx >= 0 {
			name = name[:idx]
		}
		e := map[string]any{"struct": t.Name(), "field": f.Name, "avp": name, "gotype": goKind(f.Type), "found": false, "code": -1, "vendor": -1, "dicttype": ""}
		if name != "" {
			if a, err := dict.Default.FindAVPWithVendor(charging_code.Re_interface, name, dict.UndefinedVendorID); err == nil {
				e["found"] = true
				e["code"] = clamp31(int64(a.Code))
				e["vendor"] = clamp31(int64(a.VendorID))
				e["dicttype"] = a.Data.TypeName
			}
		}
		*out = append(*out, e)
		ft := f.Type
		if ft.Kind() == reflect.Ptr {
			ft = ft.Elem()
		}
		if ft.Kind() == reflect.Struct && ft != reflect.TypeOf(datatype.Time{}) && ft != reflect.TypeOf(datatype.Grouped{}) && ft != reflect.TypeOf(datatype.Address{}) {
			collectTags(ft, t.Name(), seen, out)
		}
	}
	_ = owner
}

var avpRe = regexp.MustCompile(`(?s)<avp name="([^"]+)" code="(\d+)"([^>]*)>\s*(?:<data type="([^"]+)")?`)
var vendRe = regexp.MustCompile(`vendor-id="(\d+)"`)

func dictAVPs(text, which string) []map[string]any {
	var out []map[string]any
	for _, m := range avpRe.FindAllStringSubmatch(text, -1) {
		var code int
		fmt.Sscan(m[2], &code)
		vendor := 0
		if vm := vendRe.FindStringSubmatch(m[3]); vm != nil {
			fmt.Sscan(vm[1], &vendor)
		}
		out = append(out, map[string]any{"name": m[1], "code": code, "vendor": vendor, "type": m[4], "dict": which})
	}
	return out
}

type filler struct {
	v      DiamVec
	leaf   int
	num    int // numeric leaves met so far
	ptr    int
	nleaf  int
	sent   map[string]any
	nowSec int64
}

func bigRec(n *big.Int) map[string]any {
	return map[string]any{"neg": n.Sign() < 0, "mag": LimbsOfBig(n)}
}

func strRec(s string) map[string]any {
	sum := 0
	for i := 0; i < len(s); i++ {
		sum = (sum*31 + int(s[i])) % 1000003
	}
	head := s
	if len(head) > 24 {
		head = head[:24]
	}
	return map[string]any{"n": len(s), "sum": sum, "head": head}
}

func (f *filler) want(k int) bool {
	switch f.v.Present {
	case "all":
		return true
	case "none":
		return false
	case "only":
		return k == f.v.K
	case "except":
		return k != f.v.K
	}
	return true
}

func (f *filler) fill(v reflect.Value, path string) {
	t := v.Type()
	for i := 0; i < t.NumField(); i++ {
		fv := v.Field(i)
		ft := t.Field(i)
		p := path + "/" + ft.Name
		kind := goKind(ft.Type)
		switch {
		case ft.Type.Kind() == reflect.Ptr && ft.Type.Elem().Kind() == reflect.Struct && ft.Type.Elem() != reflect.TypeOf(datatype.Grouped{}):
			k := f.ptr
			f.ptr++
			if f.want(k) && f.v.Cls != "zero" {
				fv.Set(reflect.New(ft.Type.Elem()))
				f.fill(fv.Elem(), p)
				f.sent[p+"/@group"] = map[string]any{"present": true} // the grouped AVP itself

			}
		case kind == "Unsigned32" || kind == "Unsigned64" || kind == "Integer32" || kind == "Integer64" || kind == "Enumerated":
			i64 := int64(f.leaf)
			f.leaf++
			n := new(big.Int)
			bits := 32
			signed := kind == "Integer32" || kind == "Integer64" || kind == "Enumerated"
			if kind == "Unsigned64" || kind == "Integer64" {
				bits = 64
			}
			one := big.NewInt(1)
			maxv := new(big.Int).Lsh(one, uint(bits))
			if signed {
				maxv = new(big.Int).Lsh(one, uint(bits-1))
			}
			maxv.Sub(maxv, one)
			cls := f.v.Cls
			if (f.v.Hm == "hole" && f.num == f.v.H) || (f.v.Hm == "solo" && f.num != f.v.H) {
				cls = "zero"
			}
			f.num++
			switch cls {
			case "zero":
			case "one":
				n.SetInt64(i64 + 1)
			case "mid":
				n.Lsh(one, uint(bits-2))
				n.Add(n, big.NewInt(i64))
			case "max":
				n.Sub(maxv, big.NewInt(i64))
			case "min":
				if signed {
					n.Neg(maxv)
					n.Sub(n, one)
					n.Add(n, big.NewInt(i64))
				} else {
					n.SetInt64(i64 + 2)
				}
			case "neg":
				if signed {
					n.SetInt64(-(i64 + 1))
				} else {
					n.Sub(maxv, big.NewInt(2*i64+1))
				}
			}
			if kind == "Enumerated" && ft.Type != reflect.TypeOf(datatype.Enumerated(0)) {
				// named enumerations keep small members
				n.SetInt64(i64 % 4)
				if cls == "zero" {
					n.SetInt64(0)
				}
			}
			if signed {
				fv.SetInt(n.Int64())
			} else {
				fv.SetUint(n.Uint64())
			}
			if n.Sign() != 0 {
				f.sent[p] = bigRec(n)
			}
		case kind == "UTF8String" || kind == "OctetString" || kind == "DiameterIdentity":
			i64 := f.leaf
			f.leaf++
			s := ""
			if f.v.Cls != "zero" {
				switch f.v.Strs {
				case "short":
					s = fmt.Sprintf("s%d", i64)
				case "long":
					s = fmt.Sprintf("L%d-", i64) + strings.Repeat("x", 4096)
				case "empty":
					s = ""
				}
			}
			fv.SetString(s)
			if s != "" {
				f.sent[p] = strRec(s)
			}
		case kind == "Time":
			i64 := int64(f.leaf)
			f.leaf++
			if f.v.Cls != "zero" {
				tm := time.Unix(f.nowSec+i64, 0)
				fv.Set(reflect.ValueOf(datatype.Time(tm)))
				f.sent[p] = bigRec(big.NewInt(f.nowSec + i64))
			}
		}
	}
}

func flatten(v reflect.Value, path string, out map[string]any) {
	t := v.Type()
	for i := 0; i < t.NumField(); i++ {
		fv := v.Field(i)
		ft := t.Field(i)
		p := path + "/" + ft.Name
		kind := goKind(ft.Type)
		switch {
		case ft.Type.Kind() == reflect.Ptr && ft.Type.Elem().Kind() == reflect.Struct && ft.Type.Elem() != reflect.TypeOf(datatype.Grouped{}):
			if !fv.IsNil() {
				before := len(out)
				flatten(fv.Elem(), p, out)
				_ = before
				// a group received as present -- even with no member value -- is reported: an absent group must stay absent
				out[p+"/@group"] = map[string]any{"present": true}
			}
		case kind == "Unsigned32" || kind == "Unsigned64":
			if fv.Uint() != 0 {
				out[p] = bigRec(new(big.Int).SetUint64(fv.Uint()))
			}
		case kind == "Integer32" || kind == "Integer64" || kind == "Enumerated":
			if fv.Int() != 0 {
				out[p] = bigRec(big.NewInt(fv.Int()))
			}
		case kind == "UTF8String" || kind == "OctetString" || kind == "DiameterIdentity":
			if fv.Len() != 0 {
				out[p] = strRec(fv.String())
			}
		case kind == "Time":
			tm := time.Time(fv.Interface().(datatype.Time))
			// the zero Time travels as the NTP epoch (1900): still "no value"
			if !tm.IsZero() && tm.Unix() > 86400*366 {
				out[p] = bigRec(big.NewInt(tm.Unix()))
			}
		}
	}
}

func RunDiamMsg(in, out string) error {
	raw, err := os.ReadFile(in)
	if err != nil {
		return err
	}
	var vecs []DiamVec
	if err = json.Unmarshal(raw, &vecs); err != nil {
		return err
	}
	f, err := os.Create(out)
	if err != nil {
		return err
	}
	defer f.Close()
	w := bufio.NewWriterSize(f, 1<<20)
	defer w.Flush()
	emit := func(v any) {
		b, _ := json.Marshal(v)
		_, _ = w.Write(b)
		_ = w.WriteByte('\n')
	}
	// the dictionaries in the order the product loads them (rf.OpenServer, then abmf.OpenServer)
	e1 := dict.Default.Load(bytes.NewReader([]byte(charging_dict.RateDictionary)))
	e2 := dict.Default.Load(bytes.NewReader([]byte(charging_dict.AbmfDictionary)))
	seq := 0
	for _, v := range vecs {
		seq++
		if v.Msg == "tables" {
			var tags []map[string]any
			for _, name := range []string{"SUR", "SUA", "CCR", "CCA"} {
				collectTags(msgTypes[name], name, map[reflect.Type]bool{}, &tags)
			}
			avps := append(dictAVPs(charging_dict.RateDictionary, "rate"), dictAVPs(charging_dict.AbmfDictionary, "abmf")...)
			emit(map[string]any{"trace": v.ID, "seq": seq, "action": "tables", "tags": tags, "dictavps": avps,
				"loaderr": fmt.Sprint(e1)+fmt.Sprint(e2) != "<nil><nil>"})
			continue
		}
		t := msgTypes[v.Msg]
		src := reflect.New(t)
		fl := &filler{v: v, sent: map[string]any{}, nowSec: time.Now().Unix()}
		fl.fill(src.Elem(), v.Msg)
		cmd := uint32(charging_code.ServiceUsageMessage)
		if v.Msg == "CCR" || v.Msg == "CCA" {
			cmd = charging_code.ABMF_CreditControl
		}
		m := diam.NewRequest(cmd, charging_code.Re_interface, dict.Default)
		if v.Msg == "SUA" || v.Msg == "CCA" {
			m = m.Answer(diam.Success)
			m.AVP = nil
		}
		res := map[string]any{"err": "", "recv": map[string]any{}}
		func() {
			defer func() {
				if r := recover(); r != nil {
					res["err"] = "panic: " + fmt.Sprint(r)
				}
			}()
			if err := m.Marshal(src.Interface()); err != nil {
				res["err"] = "marshal: " + err.Error()
				return
			}
			bs, err := m.Serialize()
			if err != nil {
				res["err"] = "serialize: " + err.Error()
				return
			}
			m2, err := diam.ReadMessage(bytes.NewReader(bs), dict.Default)
			if err != nil {
				res["err"] = "read: " + err.Error()
				return
			}
			dst := reflect.New(t)
			if err := m2.Unmarshal(dst.Interface()); err != nil {
				res["err"] = "unmarshal: " + err.Error()
				return
			}
			recv := map[string]any{}
			flatten(dst.Elem(), v.Msg, recv)
			res["recv"] = recv
		}()
		emit(map[string]any{"trace": v.ID, "seq": seq, "action": "wire", "msg": v.Msg, "cls": v.Cls, "present": v.Present, "k": v.K, "strs": v.Strs,
			"sent": fl.sent, "result": res, "nleaf": fl.leaf, "nptr": fl.ptr})
	}
	return nil
}
