package verifharness

// Driver for C20: every generated YAML configuration goes through the real factory.ReadConfig; accepted
// ones are then used, in a SEPARATE PROCESS (a panic in a goroutine cannot be recovered), to initialise the
// context and open the rating, account-balance and SBI components and to serve one online update.

import (
	"bufio"
	"context"
	"encoding/json"
	"fmt"
	"os"
	"os/exec"
	"path/filepath"
	"strings"
	"sync"
	"time"

	chf_context "github.com/free5gc/chf/internal/context"
	"github.com/free5gc/chf/internal/sbi"
	"github.com/free5gc/chf/pkg/abmf"
	"github.com/free5gc/chf/pkg/factory"
	"github.com/free5gc/chf/pkg/rf"
	"github.com/free5gc/chf/pkg/service"
	"github.com/free5gc/openapi/models"
)

type ConfigCase struct {
	ID         string            `json:"id"`
	Cfg        map[string]string `json:"cfg"`
	Baseline   map[string]string `json:"baseline"`
	Valid      bool              `json:"valid"`
	MustReject bool              `json:"must_reject"`
	Yaml       string            `json:"yaml"`
	KeyLog     bool              `json:"keylog"` // the application is created with a TLS key log path
}

func RunConfig(prefix, in, out string) error {
	raw, err := os.ReadFile(in)
	if err != nil {
		return err
	}
	var cases []ConfigCase
	if err = json.Unmarshal(raw, &cases); err != nil {
		return err
	}
	f, err := os.Create(out)
	if err != nil {
		return err
	}
	defer f.Close()
	w := bufio.NewWriterSize(f, 1<<20)
	defer w.Flush()
	Quiet()
	fm, url, err := StartFakeMongo()
	if err != nil {
		return err
	}
	dir, err := os.MkdirTemp(os.Getenv("VF_TMP"), "cfg")
	if err != nil {
		return err
	}
	defer os.RemoveAll(dir)
	pemPath, keyPath := GenCert(dir)
	// the same store behind a Unix domain socket (the driver lower-cases host names, socket paths included: the directory
	// name must not contain capitals)
	sockDir, err := os.MkdirTemp("/var/tmp", "vfsock")
	if err != nil {
		return err
	}
	defer os.RemoveAll(sockDir)
	unixURL, uerr := fm.ListenUnix(filepath.Join(sockDir, "mongodb-27017.sock"))
	if uerr != nil {
		return uerr
	}
	self, _ := os.Executable()
	supi := "imsi-" + prefix + "1"
	for i, c := range cases {
		fm.Clear(ChargingNS)
		fm.Insert(ChargingNS, map[string]any{"ueId": supi, "ratingGroup": int32(1), "quota": "1000", "unitCost": "1"})
		rfPort, abPort, sbiPort := FreePort(), FreePort(), FreePort()
		y := c.Yaml
		for k, v := range map[string]string{
			"{MONGOUNIX}": unixURL, "{MONGO}": url, "{PEM}": pemPath, "{KEY}": keyPath, "{RF}": fmt.Sprint(rfPort), "{AB}": fmt.Sprint(abPort), "{SBI}": fmt.Sprint(sbiPort),
		} {
			y = strings.ReplaceAll(y, k, v)
		}
		path := filepath.Join(dir, fmt.Sprintf("c%d.yaml", i))
		_ = os.WriteFile(path, []byte(y), 0o600)
		rec := map[string]any{"trace": c.ID, "seq": i, "action": "config", "cfg": c.Cfg, "baseline": c.Baseline, "valid": c.Valid,
			"must_reject": c.MustReject, "accepted": false, "start": "", "detail": ""}
		var cfg *factory.Config
		var rerr error
		if e := guarded(10*time.Second, func() { cfg, rerr = factory.ReadConfig(path) }); e != "" {
			rec["detail"] = "ReadConfig " + e
			rec["accepted"] = true // it did not reject: a crash while validating
			rec["start"] = "crash"
		} else if rerr == nil && cfg != nil {
			rec["accepted"] = true
			ctx, cancel := context.WithTimeout(context.Background(), 40*time.Second)
			keylog := ""
			if c.KeyLog {
				keylog = filepath.Join(dir, fmt.Sprintf("keylog%d", i))
			}
			cmd := exec.CommandContext(ctx, self, "cfgstart", path, supi, keylog)
			outb, err := cmd.CombinedOutput()
			timedOut := ctx.Err() == context.DeadlineExceeded
			cancel()
			tail := string(outb)
			if len(tail) > 600 {
				tail = tail[len(tail)-600:]
			}
			switch {
			case timedOut:
				rec["start"] = "timeout"
			case err == nil:
				rec["start"] = "ok"
			case strings.Contains(string(outb), "components did not come up") && !strings.Contains(string(outb), "panic:") &&
				!strings.Contains(string(outb), "fatal error:") && !strings.Contains(string(outb), "[FATA]"):
				// the process stayed alive and reported an ordinary error (e.g. an address it cannot listen on)
				rec["start"] = "notup"
			case strings.Contains(string(outb), "online update not served") && !strings.Contains(string(outb), "panic:") &&
				!strings.Contains(string(outb), "fatal error:") && !strings.Contains(string(outb), "[FATA]"):
				// everything came up, the process stayed alive, but the charging request was refused (a transport the
				// environment does not provide)
				rec["start"] = "notserved"
			default:
				rec["start"] = "crash"
			}
			rec["detail"] = tail
		}
		b, _ := json.Marshal(rec)
		_, _ = w.Write(b)
		_ = w.WriteByte('\n')
	}
	return nil
}

// CfgStart runs in the child process.  Exit 0: the components came up (or refused gracefully with an error).
func CfgStart(path, supi, keylog string) error {
	cfg, err := factory.ReadConfig(path)
	if err != nil {
		return fmt.Errorf("child: config rejected: %v", err)
	}
	factory.ChfConfig = cfg
	app, err := service.NewApp(context.Background(), cfg, keylog)
	if err != nil {
		fmt.Println("graceful: NewApp error:", err)
		return nil
	}
	var wg sync.WaitGroup
	wg.Add(2)
	rf.OpenServer(context.Background(), &wg)
	abmf.OpenServer(context.Background(), &wg)
	srv, err := sbi.NewServer(app, keylog)
	if err != nil {
		fmt.Println("graceful: NewServer error:", err)
		return nil
	}
	sbi.VerifStartServer(srv, &wg)
	c := cfg.Configuration
	up := WaitPort(c.RfDiameter.Port, 4*time.Second) && WaitPort(c.AbmfDiameter.Port, 4*time.Second)
	sbiUp := WaitPort(c.Sbi.Port, 4*time.Second)
	fmt.Println("ports up:", up, sbiUp)
	if !up || !sbiUp {
		return fmt.Errorf("child: components did not come up (diameter=%v sbi=%v)", up, sbiUp)
	}
	// one session with one online update through the real processor
	p := app.Processor()
	req := models.ChfConvergedChargingChargingDataRequest{
		SubscriberIdentifier:     supi,
		NfConsumerIdentification: &models.ChfConvergedChargingNfIdentification{NFName: "smf", NodeFunctionality: "SMF"},
		InvocationSequenceNumber: 1,
	}
	_, loc, pd := p.ChargingDataCreate(req)
	if pd != nil {
		return fmt.Errorf("child: create answered %d", pd.Status)
	}
	ref := loc[strings.LastIndex(loc, "/")+1:]
	req.MultipleUnitUsage = []models.ChfConvergedChargingMultipleUnitUsage{{
		RatingGroup: 1, RequestedUnit: &models.RequestedUnit{TotalVolume: 10},
		UsedUnitContainer: []models.ChfConvergedChargingUsedUnitContainer{{
			QuotaManagementIndicator: models.QuotaManagementIndicator_ONLINE_CHARGING, LocalSequenceNumber: 1,
		}},
	}}
	rsp, pd := p.ChargingDataUpdate(req, ref)
	if pd != nil || rsp == nil || len(rsp.MultipleUnitInformation) != 1 || rsp.MultipleUnitInformation[0].GrantedUnit == nil ||
		rsp.MultipleUnitInformation[0].GrantedUnit.TotalVolume != 10 {
		return fmt.Errorf("child: online update not served: %+v %+v", rsp, pd)
	}
	_ = chf_context.GetSelf()
	time.Sleep(300 * time.Millisecond)
	return nil
}
