package verifharness

// Driver for the CDR transfer to the billing domain (internal/cgf): the CHF is an FTP client of the charging gateway
// (Cgf.HostIPv4:Port) and re-sends a subscriber's CDR file after charging operations.  The harness owns the remote FTP
// server (same library the product uses) behind a TCP front door it can close -- taking all control connections with
// it -- and re-open ("the gateway restarts").  After every step the local file and the gateway's copy are compared.

import (
	"bufio"
	"context"
	"crypto/sha256"
	"encoding/hex"
	"encoding/json"
	"fmt"
	"io"
	"net"
	"os"
	"path/filepath"
	"strings"
	"sync"
	"time"

	"github.com/fclairamb/ftpserver/config"
	"github.com/fclairamb/ftpserver/server"
	ftpserver "github.com/fclairamb/ftpserverlib"

	"github.com/free5gc/chf/internal/cgf"
	"github.com/free5gc/chf/internal/logger"
	"github.com/free5gc/chf/pkg/factory"
)

type CgfStep struct {
	A string `json:"a"` // create | update | release | stop | start
	U string `json:"u"`
	S string `json:"s"`
}

type CgfCase struct {
	ID    string    `json:"id"`
	Steps []CgfStep `json:"steps"`
}

type frontDoor struct {
	mu     sync.Mutex
	ln     net.Listener
	conns  map[net.Conn]bool
	addr   string
	target string
}

func (d *frontDoor) open() error {
	ln, err := net.Listen("tcp", d.addr)
	if err != nil {
		return err
	}
	d.mu.Lock()
	d.ln = ln
	d.conns = map[net.Conn]bool{}
	d.mu.Unlock()
	go func() {
		for {
			c, err := ln.Accept()
			if err != nil {
				return
			}
			t, err := net.Dial("tcp", d.target)
			if err != nil {
				_ = c.Close()
				continue
			}
			d.mu.Lock()
			d.conns[c], d.conns[t] = true, true
			d.mu.Unlock()
			go func() { _, _ = io.Copy(t, c); _ = t.Close(); _ = c.Close() }()
			go func() { _, _ = io.Copy(c, t); _ = t.Close(); _ = c.Close() }()
		}
	}()
	return nil
}

func (d *frontDoor) close() {
	d.mu.Lock()
	defer d.mu.Unlock()
	if d.ln != nil {
		_ = d.ln.Close()
		d.ln = nil
	}
	for c := range d.conns {
		_ = c.Close()
	}
	d.conns = map[net.Conn]bool{}
}

func fileState(path string) map[string]any {
	b, err := os.ReadFile(path)
	if err != nil {
		return map[string]any{"exists": false, "len": 0, "sum": ""}
	}
	h := sha256.Sum256(b)
	return map[string]any{"exists": true, "len": len(b), "sum": hex.EncodeToString(h[:8])}
}

func RunCgf(prefix, in, out string) error {
	raw, err := os.ReadFile(in)
	if err != nil {
		return err
	}
	var cases []CgfCase
	if err = json.Unmarshal(raw, &cases); err != nil {
		return err
	}
	f, err := os.Create(out)
	if err != nil {
		return err
	}
	defer f.Close()
	w := bufio.NewWriterSize(f, 1<<20)
	defer w.Flush()
	env, err := StartEnv(EnvOpts{NoRating: true, NoAbmf: true})
	if err != nil {
		return err
	}
	defer env.Close()
	// the gateway: FTP server on a private port, front door on the port the CHF is configured with
	remoteDir := filepath.Join(env.Dir, "gateway")
	_ = os.MkdirAll(remoteDir, 0o755)
	backPort, frontPort, ownPort, pasv, pasvOwn := FreePort(), FreePort(), FreePort(), FreePort(), FreePort()
	cfgPath := filepath.Join(env.Dir, "gateway.json")
	cfgJSON := fmt.Sprintf(`{"version":1,"accesses":[{"user":"admin","pass":"free5gc","fs":"os","params":{"basePath":%q}}],
"listen_address":"127.0.0.1:%d","passive_transfer_port_range":{"start":%d,"end":%d}}`, remoteDir, backPort, pasv, pasv+6)
	_ = os.WriteFile(cfgPath, []byte(cfgJSON), 0o644)
	conf, err := config.NewConfig(cfgPath, logger.FtpServerLog)
	if err != nil {
		return err
	}
	drv, err := server.NewServer(conf, logger.FtpServerLog)
	if err != nil {
		return err
	}
	gw := ftpserver.NewFtpServer(drv)
	gw.Logger = logger.FtpServerLog
	go func() { _ = gw.ListenAndServe() }()
	if !WaitPort(backPort, 5*time.Second) {
		return fmt.Errorf("gateway FTP server did not come up")
	}
	door := &frontDoor{addr: fmt.Sprintf("127.0.0.1:%d", frontPort), target: fmt.Sprintf("127.0.0.1:%d", backPort)}
	if err = door.open(); err != nil {
		return err
	}
	c := factory.ChfConfig.Configuration.Cgf
	c.Enable, c.HostIPv4, c.Port, c.ListenPort = true, "127.0.0.1", frontPort, ownPort
	c.PassiveTransferPortRange.Start, c.PassiveTransferPortRange.End = pasvOwn, pasvOwn+6
	cgf.CGFEnable = true
	var wg sync.WaitGroup
	wg.Add(1)
	ctx, cancel := context.WithCancel(context.Background())
	defer cancel()
	if cgf.OpenServer(ctx, &wg) == nil {
		return fmt.Errorf("cgf.OpenServer failed")
	}
	time.Sleep(300 * time.Millisecond)
	seq := 0
	for ci, cs := range cases {
		env.ResetState(0)
		if door.ln == nil {
			_ = door.open()
		}
		entries, _ := os.ReadDir(remoteDir)
		for _, e := range entries {
			_ = os.Remove(filepath.Join(remoteDir, e.Name()))
		}
		refs := map[string]string{}
		supi := func(u string) string { return fmt.Sprintf("imsi-%s%d%s", prefix, ci, u) }
		up := true
		seq++
		b0, _ := json.Marshal(map[string]any{"trace": cs.ID, "seq": seq, "action": "reset"})
		_, _ = w.Write(b0)
		_ = w.WriteByte('\n')
		lsn := 0
		for _, st := range cs.Steps {
			status := 0
			t0 := time.Now()
			switch st.A {
			case "stop":
				door.close()
				up = false
			case "start":
				_ = door.open()
				up = true
			case "create":
				body := fmt.Sprintf(`{"subscriberIdentifier":%q,"nfConsumerIdentification":{"nFName":"smf","nodeFunctionality":"SMF"},"invocationSequenceNumber":1,"chargingId":3}`, supi(st.U))
				hr := env.Do("POST", "/nchf-convergedcharging/v3/chargingdata", []byte(body), nil, 30*time.Second)
				status = hr.Status
				if i := strings.LastIndex(hr.Location, "/"); i >= 0 {
					refs[st.U+"/"+st.S] = hr.Location[i+1:]
				}
			case "update", "release":
				lsn++
				body := fmt.Sprintf(`{"subscriberIdentifier":%q,"invocationSequenceNumber":%d,"multipleUnitUsage":[{"ratingGroup":1,"usedUnitContainer":[{"quotaManagementIndicator":"OFFLINE_CHARGING","totalVolume":%d,"localSequenceNumber":%d}]}]}`,
					supi(st.U), lsn+1, lsn, lsn)
				hr := env.Do("POST", "/nchf-convergedcharging/v3/chargingdata/"+refs[st.U+"/"+st.S]+"/"+st.A, []byte(body), nil, 30*time.Second)
				status = hr.Status
			}
			seq++
			obs := map[string]any{}
			for _, u := range []string{"1", "2"} {
				obs[u] = map[string]any{"local": fileState("/tmp/" + supi(u) + ".cdr"), "remote": fileState(filepath.Join(remoteDir, supi(u)+".cdr"))}
			}
			b, _ := json.Marshal(map[string]any{"trace": cs.ID, "seq": seq, "action": st.A, "u": st.U, "s": st.S, "status": status, "up": up,
				"ms": time.Since(t0).Milliseconds(), "files": obs})
			_, _ = w.Write(b)
			_ = w.WriteByte('\n')
		}
		for _, u := range []string{"1", "2"} {
			_ = os.Remove("/tmp/" + supi(u) + ".cdr")
		}
	}
	return nil
}
