-------------------------------- MODULE Http --------------------------------
(***************************************************************************)
(* Input handling of the converged-charging HTTP API (C11): which request   *)
(* shapes the handlers accept, reject or crash on, and what a crash leaves  *)
(* behind.  A request is abstracted to its SHAPE (which optional/mandatory  *)
(* members are present, SUPI form, recharge parameter form, prior state of  *)
(* the subscriber).  A panic inside a handler is turned into 500 by gin's   *)
(* recovery middleware; whether the subscriber's lock survives depends on   *)
(* whether it was taken with defer (update/release) or not (create as-is).  *)
(***************************************************************************)
EXTENDS Integers, Sequences, FiniteSets, TLC, Json

CONSTANTS
  DEV_NilDerefs,      \* subset of {"nfci","pdu","plmn","requnit","rparam"}: members dereferenced unguarded
  DEV_CreateNoDefer,  \* TRUE: create unlocks manually on each return path, so a panic leaves the lock held
  Eps, Supis, Nfcis, Plmns, Pdus, Usages, Trigs, Rparams, Priors, Notifys,
  Ctls,   \* control members of the request: "plain"; "retx" = retransmissionIndicator set; "isn0" / "isnabs" = invocation
          \* sequence number 0 / absent; "retx0" / "retxabs" = both; "emptyarr" = every optional array member present as [];
          \* "nulls" = optional members present as null
  Bulks,  \* "none" | "many": the usage entry carries more than a thousand containers (a body well beyond 64 KiB)
  EmitOneIn

VARIABLES shape, phase, locked, known, out, fol
vars == <<shape, phase, locked, known, out, fol>>

Mk(e, s, n, p, d, u, t, r, pr, nf) ==
  [ep |-> e, supi |-> s, nfci |-> n, plmn |-> p, pdu |-> d, usage |-> u, trig |-> t, rparam |-> r, prior |-> pr,
   notify |-> nf,     \* whether the (prior or probed) create registers a notification URI
   ctl |-> "plain", bulk |-> "none"]
MkX(sh, c, b) == [sh EXCEPT !.ctl = c, !.bulk = b]
\* only the members an endpoint reads vary for it (keeps the enumeration free of duplicates)
Shapes ==
  (IF "create" \in Eps THEN {Mk("create", s, n, p, d, u, "none", "u_1", pr, nf) :
       s \in Supis, n \in Nfcis, p \in Plmns, d \in Pdus, u \in Usages \cap {"none", "offline"}, pr \in Priors, nf \in Notifys} ELSE {})
  \cup {Mk(e, s, "present", "absent", "absent", u, t, "u_1", pr, "present") :
       e \in Eps \cap {"update", "release"}, s \in Supis, u \in Usages, t \in Trigs, pr \in Priors}
  \cup (IF "recharge" \in Eps THEN {Mk("recharge", s, "present", "absent", "absent", "none", "none", r, pr, nf) :
       s \in Supis, r \in Rparams, pr \in Priors, nf \in Notifys} ELSE {})
  \* otherwise well-formed requests of a well-formed subscriber whose control members / size are unusual
  \cup {MkX(Mk(e, "imsi", "present", "absent", "absent", u, t, "u_1", pr, "present"), c, b) :
       e \in Eps \cap {"update", "release"}, u \in Usages, t \in Trigs, pr \in Priors, c \in Ctls, b \in Bulks}
  \cup (IF "create" \in Eps THEN {MkX(Mk("create", "imsi", "present", "absent", d, u, "none", "u_1", pr, "present"), c, b) :
       d \in Pdus \cap {"absent", "full"}, u \in Usages \cap {"none", "offline"}, pr \in Priors, c \in Ctls, b \in Bulks} ELSE {})

ImsiLike(s) == s.supi = "imsi"      \* "imsi-" followed by 5..15 digits (an empty, over-long or path-like IMSI is rejected)

\* outcome of the probe: [class, leaks]   class in {"2xx","4xx","500"}
Outcome(s, kn) ==
  CASE s.ep = "create" ->
         IF ~ImsiLike(s) THEN [class |-> "4xx", leaks |-> FALSE]
         ELSE IF s.nfci = "absent" THEN
                (IF "nfci" \in DEV_NilDerefs THEN [class |-> "500", leaks |-> DEV_CreateNoDefer] ELSE [class |-> "4xx", leaks |-> FALSE])
         ELSE IF s.pdu \in {"no_info", "no_slice", "no_snssai"} THEN
                (IF "pdu" \in DEV_NilDerefs THEN [class |-> "500", leaks |-> DEV_CreateNoDefer] ELSE [class |-> "4xx", leaks |-> FALSE])
         ELSE IF s.plmn \notin {"absent", "ok", "ok3", "home2", "home3"} THEN     \* every other variant is malformed (MCC not 3 digits or MNC not 2..3)
                (IF "plmn" \in DEV_NilDerefs THEN [class |-> "500", leaks |-> DEV_CreateNoDefer] ELSE [class |-> "4xx", leaks |-> FALSE])
         ELSE [class |-> "2xx", leaks |-> FALSE]
    [] s.ep \in {"update", "release"} ->
         IF ~kn THEN [class |-> "4xx", leaks |-> FALSE]
         ELSE IF s.usage = "online_noreq" /\ s.trig # "final" /\ s.prior # "debit" /\ "requnit" \in DEV_NilDerefs
                THEN [class |-> "500", leaks |-> FALSE]          \* deferred unlock runs
         ELSE [class |-> "2xx", leaks |-> FALSE]
    [] s.ep = "recharge" ->
         IF s.supi = "slash" /\ s.rparam # "_" THEN [class |-> "4xx", leaks |-> FALSE]   \* a path-like identifier matches no route: 404
         ELSE IF s.rparam \in {"u", "u_1_2"} THEN
                (IF "rparam" \in DEV_NilDerefs THEN [class |-> "500", leaks |-> FALSE] ELSE [class |-> "4xx", leaks |-> FALSE])
         ELSE [class |-> "2xx", leaks |-> FALSE]

Init == /\ shape \in Shapes
        /\ phase = "prior" /\ locked = FALSE /\ known = FALSE
        /\ out = [class |-> "", leaks |-> FALSE] /\ fol = ""
Prior == /\ phase = "prior"
         /\ known' = (shape.prior \in {"created", "debit", "nearfull", "evcreated", "createdpdu"} /\ ImsiLike(shape))   \* "nearfull": a session whose record is almost full;
                      \* "createdpdu": the open session was created with the same PDU session information the probed create carries (a repeated initial request)
         /\ phase' = "probe" /\ UNCHANGED <<shape, locked, out, fol>>
Probe == /\ phase = "probe"
         /\ out' = Outcome(shape, known)
         /\ locked' = Outcome(shape, known).leaks
         /\ known' = (known \/ (shape.ep = "create" /\ ImsiLike(shape)))   \* the context is stored before the crash
         /\ phase' = "follow" /\ UNCHANGED <<shape, fol>>
\* the follow-up is a well-formed request for the same subscriber: it needs the subscriber's lock
Follow == /\ phase = "follow"
          /\ fol' = IF locked /\ ImsiLike(shape) THEN "blocked" ELSE "answered"
          /\ phase' = "done" /\ UNCHANGED <<shape, locked, known, out>>
Next == Prior \/ Probe \/ Follow
Spec == Init /\ [][Next]_vars
View == vars

Case == <<[shape |-> shape, expect |-> out.class, follow |-> fol]>>
InvNeverServerError == out.class # "500" \/ (PrintT(<<"VF-CEX", ToJson(Case)>>) /\ FALSE)
InvFollowUpAnswered == fol # "blocked" \/ (PrintT(<<"VF-CEX", ToJson(Case)>>) /\ FALSE)
EmitBehaviour == IF phase' = "done" /\ RandomElement(1..EmitOneIn) = 1
                   THEN PrintT(<<"VF-BEH", ToJson(<<[shape |-> shape, expect |-> out.class, follow |-> fol']>>)>>) ELSE TRUE
=============================================================================
