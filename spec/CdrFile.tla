------------------------------- MODULE CdrFile -------------------------------
(***************************************************************************)
(* TS 32.297 clause 6.1: the CDR file layout, written from the             *)
(* specification (independent of cdr/cdrFile).                             *)
(*   FileBytes(s)  : the octets of file structure s                        *)
(*   ParseFile(b)  : the structure read back from octets b                 *)
(* Octet strings are sequences of items; an item is an octet 0..255 or a   *)
(* run token -(n*8+k) standing for n payload octets of pattern k (large   *)
(* payloads are not spelled out octet by octet).                           *)
(* 32-bit fields are given as 4 octets (TLC integers are 32-bit signed).   *)
(*                                                                         *)
(* s = [hdr |-> [fileLength, headerLength : 4 octets;                       *)
(*               hiRel, hiVer, loRel, loVer; openTs, lastTs : timestamp;   *)
(*               nCdrs, fileSeq : 4 octets; closure; ip : 20 octets; lost; *)
(*               filter, ext : octet strings; hiExt, loExt],               *)
(*      cdrs |-> Seq([rel, ver, fmt, ts, relExt, payload])]                *)
(* timestamp = [month, date, hour, minute, sign, hourDev, minDev]          *)
(***************************************************************************)
EXTENDS Integers, Sequences, FiniteSets, TLC

IsTok(x) == x < 0                      \* run token: -(run * 8 + pat)
Run(x) == (0 - x) \div 8
Pat(x) == (0 - x) % 8
Tok(n, k) == 0 - (n * 8 + k)
RECURSIVE ItemsLen(_, _)
ItemsLen(b, i) == IF i > Len(b) THEN 0 ELSE (IF IsTok(b[i]) THEN Run(b[i]) ELSE 1) + ItemsLen(b, i + 1)
OLen(b) == ItemsLen(b, 1)             \* number of octets an item sequence stands for

BE2(n) == << n \div 256, n % 256 >>
Num2(b, i) == b[i] * 256 + b[i + 1]
\* value of a 4-octet field when it fits a TLC integer, else -1
Num4(f) == IF f[1] >= 128 THEN -1 ELSE ((f[1] * 256 + f[2]) * 256 + f[3]) * 256 + f[4]

\* 6.1.1: month(4) date(5) hour(5) minute(6) sign(1) hourDev(5) minDev(6), most significant first
TsBytes(t) ==
  LET hi == t.month * 4096 + t.date * 128 + t.hour * 4 + (t.minute \div 16)
      lo == (t.minute % 16) * 4096 + t.sign * 2048 + t.hourDev * 64 + t.minDev
  IN BE2(hi) \o BE2(lo)
TsOf(b, i) ==
  LET hi == Num2(b, i) lo == Num2(b, i + 2) IN
  [month |-> hi \div 4096, date |-> (hi \div 128) % 32, hour |-> (hi \div 4) % 32,
   minute |-> (hi % 4) * 16 + lo \div 4096, sign |-> (lo \div 2048) % 2, hourDev |-> (lo \div 64) % 32, minDev |-> lo % 64]

HdrBytes(h) ==
  h.fileLength \o h.headerLength
  \o << h.hiRel * 32 + h.hiVer, h.loRel * 32 + h.loVer >>
  \o TsBytes(h.openTs) \o TsBytes(h.lastTs)
  \o h.nCdrs \o h.fileSeq \o << h.closure >> \o h.ip \o << h.lost >>
  \o BE2(Len(h.filter)) \o h.filter
  \o BE2(Len(h.ext)) \o h.ext
  \o (IF h.hiRel = 7 THEN << h.hiExt >> ELSE <<>>)
  \o (IF h.loRel = 7 THEN << h.loExt >> ELSE <<>>)

CdrBytes(c) ==
  BE2(OLen(c.payload)) \o << c.rel * 32 + c.ver, c.fmt * 32 + c.ts >>
  \o (IF c.rel = 7 THEN << c.relExt >> ELSE <<>>) \o c.payload

RECURSIVE CdrsBytes(_, _)
CdrsBytes(cs, i) == IF i > Len(cs) THEN <<>> ELSE CdrBytes(cs[i]) \o CdrsBytes(cs, i + 1)
FileBytes(s) == HdrBytes(s.hdr) \o CdrsBytes(s.cdrs, 1)

\* the real sizes
HdrSize(h) == 52 + Len(h.filter) + Len(h.ext) + (IF h.hiRel = 7 THEN 1 ELSE 0) + (IF h.loRel = 7 THEN 1 ELSE 0)
CdrSize(c) == 4 + (IF c.rel = 7 THEN 1 ELSE 0) + OLen(c.payload)
RECURSIVE SumCdr(_, _)
SumCdr(cs, i) == IF i > Len(cs) THEN 0 ELSE CdrSize(cs[i]) + SumCdr(cs, i + 1)
FileSize(s) == HdrSize(s.hdr) + SumCdr(s.cdrs, 1)

\* well-formed structure (the quantifier of C14/C15): fields within their bit widths, lengths consistent
TsOK(t) == t.month \in 0..15 /\ t.date \in 0..31 /\ t.hour \in 0..31 /\ t.minute \in 0..63 /\ t.sign \in 0..1
           /\ t.hourDev \in 0..31 /\ t.minDev \in 0..63
WellFormedStruct(s) ==
  LET h == s.hdr IN
  /\ h.hiRel \in 0..7 /\ h.loRel \in 0..7 /\ h.hiVer \in 0..31 /\ h.loVer \in 0..31
  /\ TsOK(h.openTs) /\ TsOK(h.lastTs) /\ h.closure \in 0..255 /\ h.lost \in 0..255 /\ Len(h.ip) = 20
  /\ Len(h.filter) <= 65535 /\ Len(h.ext) <= 65535
  /\ Num4(h.headerLength) = HdrSize(h) /\ Num4(h.fileLength) = FileSize(s) /\ Num4(h.nCdrs) = Len(s.cdrs)
  /\ \A i \in 1..Len(s.cdrs) : LET c == s.cdrs[i] IN
        c.rel \in 0..7 /\ c.ver \in 0..31 /\ c.fmt \in 0..7 /\ c.ts \in 0..31 /\ OLen(c.payload) <= 65535

\* independent reader.  Returns [ok, s]; item sequences may contain run tokens in payload position only.
RECURSIVE TakeItems(_, _, _)
TakeItems(b, i, n) ==      \* items from position i standing for exactly n octets: [ok, items, next]
  IF n = 0 THEN [ok |-> TRUE, items |-> <<>>, next |-> i]
  ELSE IF i > Len(b) THEN [ok |-> FALSE, items |-> <<>>, next |-> i]
  ELSE LET w == IF IsTok(b[i]) THEN Run(b[i]) ELSE 1 IN
       IF w > n THEN [ok |-> FALSE, items |-> <<>>, next |-> i]
       ELSE LET r == TakeItems(b, i + 1, n - w) IN [ok |-> r.ok, items |-> <<b[i]>> \o r.items, next |-> r.next]
RECURSIVE ReadCdrs(_, _, _)
ReadCdrs(b, i, k) ==       \* k records starting at item i
  IF k = 0 THEN [ok |-> i = Len(b) + 1, cdrs |-> <<>>]
  ELSE IF i + 3 > Len(b) THEN [ok |-> FALSE, cdrs |-> <<>>]
  ELSE LET len == Num2(b, i)
           rel == b[i + 2] \div 32
           h   == IF rel = 7 THEN 5 ELSE 4
       IN IF i + h - 1 > Len(b) THEN [ok |-> FALSE, cdrs |-> <<>>]
          ELSE LET p == TakeItems(b, i + h, len)
                   c == [rel |-> rel, ver |-> b[i + 2] % 32, fmt |-> b[i + 3] \div 32, ts |-> b[i + 3] % 32,
                         relExt |-> IF rel = 7 THEN b[i + 4] ELSE 0, payload |-> p.items]
                   rest == IF p.ok THEN ReadCdrs(b, p.next, k - 1) ELSE [ok |-> FALSE, cdrs |-> <<>>]
               IN [ok |-> p.ok /\ rest.ok, cdrs |-> <<c>> \o rest.cdrs]
ParseFile(b) ==
  IF Len(b) < 52 \/ \E i \in 1..52 : IsTok(b[i]) THEN [ok |-> FALSE, s |-> <<>>]
  ELSE
  LET lf == Num2(b, 49)
      pe == 51 + lf                       \* 1-based index of the private-extension length
  IN IF pe + 1 > Len(b) THEN [ok |-> FALSE, s |-> <<>>]
  ELSE
  LET le  == Num2(b, pe)
      x   == pe + 2 + le                  \* first item after the private extension
      hiRel == b[9] \div 32
      loRel == b[10] \div 32
      nx  == x + (IF hiRel = 7 THEN 1 ELSE 0) + (IF loRel = 7 THEN 1 ELSE 0)
  IN IF nx - 1 > Len(b) THEN [ok |-> FALSE, s |-> <<>>]
  ELSE
  LET h == [fileLength |-> SubSeq(b, 1, 4), headerLength |-> SubSeq(b, 5, 8),
            hiRel |-> hiRel, hiVer |-> b[9] % 32, loRel |-> loRel, loVer |-> b[10] % 32,
            openTs |-> TsOf(b, 11), lastTs |-> TsOf(b, 15),
            nCdrs |-> SubSeq(b, 19, 22), fileSeq |-> SubSeq(b, 23, 26), closure |-> b[27],
            ip |-> SubSeq(b, 28, 47), lost |-> b[48],
            filter |-> SubSeq(b, 51, 50 + lf), ext |-> SubSeq(b, pe + 2, pe + 1 + le),
            hiExt |-> IF hiRel = 7 THEN b[x] ELSE 0,
            loExt |-> IF loRel = 7 THEN b[x + (IF hiRel = 7 THEN 1 ELSE 0)] ELSE 0]
      n == Num4(h.nCdrs)
      r == IF n < 0 \/ n > 1000 THEN [ok |-> FALSE, cdrs |-> <<>>] ELSE ReadCdrs(b, nx, n)
  IN [ok |-> r.ok, s |-> [hdr |-> h, cdrs |-> r.cdrs]]

\* structures are compared modulo the extension octets that are not on the wire
Canon(s) == [hdr |-> [s.hdr EXCEPT !.hiExt = IF s.hdr.hiRel = 7 THEN @ ELSE 0, !.loExt = IF s.hdr.loRel = 7 THEN @ ELSE 0],
             cdrs |-> [i \in 1..Len(s.cdrs) |-> [s.cdrs[i] EXCEPT !.relExt = IF s.cdrs[i].rel = 7 THEN @ ELSE 0]]]
=============================================================================
