------------------------------- MODULE NrfReg -------------------------------
(***************************************************************************)
(* Registration of the CHF with the NRF (consumer.RegisterNFInstance as    *)
(* called by sbi.Server.Run) -- the premise of C13: "when the NRF has      *)
(* declared OAuth2 mandatory".  The NRF answers each attempt with a         *)
(* network error, 500, 200 (profile updated, no Location) or 201 (created, *)
(* Location, customInfo.oauth2 true/false); failed attempts are retried    *)
(* after 2 s.  Afterwards the SBI server runs with the resulting settings. *)
(***************************************************************************)
EXTENDS Integers, Sequences, FiniteSets, TLC, Json
CONSTANTS Scripts,              \* set of sequences over {"neterr","500","200","200t","200f","201t","201f"} ending in a success
                                \* ("200t"/"200f": profile replaced -- the NRF already held one under this id, e.g. after a restart
                                \* without deregistration -- and the returned profile declares OAuth2 mandatory / not)
          DEV_Oauth200Ignored,  \* TRUE: the OAuth2 setting of the NRF is adopted from a 201 answer only
          DEV_RunOverwritesNfId,\* TRUE: Server.Run assigns the returned instance id even when it is empty (200 path)
          EmitOneIn
VARIABLES script, i, nfId, oauth, pc
vars == <<script, i, nfId, oauth, pc>>
Init == script \in Scripts /\ i = 1 /\ nfId = "own" /\ oauth = FALSE /\ pc = "register"
Attempt ==
  /\ pc = "register" /\ i <= Len(script)
  /\ LET a == script[i] IN
     CASE a \in {"neterr", "500"} -> /\ i' = i + 1 /\ UNCHANGED <<nfId, oauth, pc>>          \* sleep 2 s, retry
       [] a \in {"200", "200t", "200f"} ->
                       /\ pc' = "serve" /\ i' = i + 1
                       /\ oauth' = IF a = "200" \/ DEV_Oauth200Ignored THEN oauth ELSE (a = "200t")
                       /\ nfId' = IF DEV_RunOverwritesNfId THEN "" ELSE nfId
       [] a \in {"201t", "201f"} -> /\ pc' = "serve" /\ i' = i + 1 /\ oauth' = (a = "201t") /\ nfId' = "fromLocation"
  /\ UNCHANGED script
Next == Attempt
Spec == Init /\ [][Next]_vars
View == vars
\* the SBI server requires a token exactly when the NRF said so at registration
OAuthFollowsNrf == pc = "serve" => (oauth <=> script[i - 1] \in {"201t", "200t"})
NfIdKept == pc = "serve" => nfId # ""
InvNrf == (OAuthFollowsNrf /\ NfIdKept) \/ (PrintT(<<"VF-CEX", ToJson(<<[script |-> script]>>)>>) /\ FALSE)
EmitBehaviour == IF pc' = "serve" /\ RandomElement(1..EmitOneIn) = 1 THEN PrintT(<<"VF-BEH", ToJson(<<[script |-> script]>>)>>) ELSE TRUE
=============================================================================
