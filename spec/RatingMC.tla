------------------------------ MODULE RatingMC ------------------------------
(* Enumeration of stored unit-cost texts x request sub-types x boundary values; the rating server is
   stateless, so every case is one step.  On the model: the exactness clauses hold for every case. *)
EXTENDS Rating, Json
CONSTANTS CostTexts,   \* set of sequences of 1-character strings
          Subs, Values,
          Others,      \* amounts the AVP that the sub-type does NOT rate may carry next to the rated one (<<>> = absent): a request
                       \* may report consumption and ask for a quota at once; only the sub-type decides what is priced
          EmitOneIn
VARIABLES case, done
vars == <<case, done>>
Init == case = <<>> /\ done = FALSE
Pick == /\ ~done
        /\ \E cs \in CostTexts, s \in Subs, v \in Values, o \in Others :
             case' = [cost |-> cs, sub |-> s, consumed |-> IF s = "debit" THEN v ELSE o, quota |-> IF s = "reserve" THEN v ELSE o]
        /\ done' = TRUE
Next == Pick
Spec == Init /\ [][Next]_vars
View == <<case, done>>
Model(c) == HandleSUR(c.cost, [sub |-> c.sub, consumed |-> c.consumed, quota |-> c.quota])
InvModelClauses ==
  done => LET o == Model(case) r == [sub |-> case.sub, consumed |-> case.consumed, quota |-> case.quota] IN
          /\ DebitPriceExact(case.cost, r, o) /\ ReserveAllowedFloor(case.cost, r, o)
          /\ (Class(case.cost) = "int" => Answered(o))
EmitBehaviour == IF RandomElement(1..EmitOneIn) = 1 THEN PrintT(<<"VF-BEH", ToJson(<<case'>>)>>) ELSE TRUE
=============================================================================
