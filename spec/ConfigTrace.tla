----------------------------- MODULE ConfigTrace -----------------------------
(* C20 judge: one line per configuration: real factory.ReadConfig verdict and, for accepted ones, the
   outcome of really starting the components in a separate process. *)
EXTENDS Integers, Sequences, FiniteSets, TLC, Json
CONSTANT TraceFile
VARIABLES l, viol, div
tvars == <<l, viol, div>>
Trace == ndJsonDeserialize(TraceFile)
Ev == Trace[l]
V(c, sit) == [prop |-> "C20", clause |-> c, trace |-> Ev.trace, step |-> Ev.seq, sit |-> sit]
Changed == {f \in DOMAIN Ev.cfg : Ev.cfg[f] # Ev.baseline[f]}
Sit == [changed |-> [f \in Changed |-> Ev.cfg[f]]]
Step ==
  /\ viol' = viol
       \* "notup": the process stayed alive and reported an ordinary error; tolerated only where the configuration names
       \* something the environment cannot provide (a host name that does not resolve) -- never a nil dereference / crash
       \cup (IF Ev.accepted /\ Ev.start # "ok" /\ ~(Ev.start = "notup" /\ \E f \in Changed : Ev.cfg[f] = "badname")
             \* "notserved": everything came up and stayed up, the charging request was refused: tolerated only for protocol sctp
             /\ ~(Ev.start = "notserved" /\ \E f \in Changed : Ev.cfg[f] = "sctp") THEN {V("accepted_config_starts", [changed |-> Sit.changed, how |-> Ev.start])} ELSE {})
       \cup (IF Ev.must_reject /\ Ev.accepted THEN {V("invalid_config_rejected", Sit)} ELSE {})
  /\ div' = div \cup (IF Ev.accepted # Ev.valid THEN {[trace |-> Ev.trace, step |-> Ev.seq, model_valid |-> Ev.valid, accepted |-> Ev.accepted, changed |-> Sit.changed]} ELSE {})
Finish == /\ l = Len(Trace) + 1
          /\ PrintT(<<"VF-RESULT", ToJson([consumed |-> l - 1, viol |-> viol, div |-> div])>>)
          /\ l' = l + 1 /\ UNCHANGED <<viol, div>>
TInit == l = 1 /\ viol = {} /\ div = {}
TNext == (l <= Len(Trace) /\ l' = l + 1 /\ Step) \/ Finish
TSpec == TInit /\ [][TNext]_tvars
=============================================================================
