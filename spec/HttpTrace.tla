------------------------------ MODULE HttpTrace ------------------------------
(* C11 judge: each line is one case executed through the REAL gin router: prior requests, the probe,
   and a well-formed follow-up for the same subscriber, each with status / timeout as observed. *)
EXTENDS Integers, Sequences, FiniteSets, TLC, Json
CONSTANT TraceFile
VARIABLES l, viol, div
tvars == <<l, viol, div>>
Trace == ndJsonDeserialize(TraceFile)
Ev == Trace[l]
Bad5xx(r) == r.timeout \/ (r.status >= 500 /\ r.status <= 599) \/ r.status < 0
Class(r) == IF r.timeout THEN "timeout" ELSE IF r.status >= 500 THEN "500" ELSE IF r.status >= 400 THEN "4xx" ELSE "2xx"
Step ==
  LET rs == Ev.results
      probes == {i \in 1..Len(rs) : rs[i].role = "probe" /\ ~rs[i].skipped}
      follows == {i \in 1..Len(rs) : rs[i].role = "follow" /\ ~rs[i].skipped}
      V(c, i) == [prop |-> "C11", clause |-> c, trace |-> Ev.trace, step |-> Ev.seq,
                  sit |-> [ep |-> Ev.shape.shape.ep, status |-> rs[i].status, timeout |-> rs[i].timeout]]
  IN /\ viol' = viol
          \cup {V("never_server_error", i) : i \in {i \in probes : Bad5xx(rs[i])}}
          \cup {V("rejection_is_problem_4xx", i) : i \in {i \in probes : rs[i].status >= 400 /\ rs[i].status <= 499 /\ ~rs[i].problem
                                                                         /\ Ev.shape.shape.ep # "recharge"}}
          \cup {V("follow_up_answered", i) : i \in {i \in follows : Bad5xx(rs[i])}}
     /\ div' = div \cup {[trace |-> Ev.trace, step |-> Ev.seq, expected |-> Ev.shape.expect, observed |-> Class(rs[i]), ep |-> Ev.shape.shape.ep]
                         : i \in {i \in probes : Class(rs[i]) # Ev.shape.expect}}
Finish == /\ l = Len(Trace) + 1
          /\ PrintT(<<"VF-RESULT", ToJson([consumed |-> l - 1, viol |-> viol, div |-> div])>>)
          /\ l' = l + 1 /\ UNCHANGED <<viol, div>>
TInit == l = 1 /\ viol = {} /\ div = {}
TNext == (l <= Len(Trace) /\ l' = l + 1 /\ Step) \/ Finish
TSpec == TInit /\ [][TNext]_tvars
=============================================================================
