---------------------------- MODULE ChfConcTrace ----------------------------
(* C09 judge.  One line per concurrent run of the REAL code: the hook events in the order they happened
   (sequence number taken under the recorder's mutex), the answer of every request, the follow-up update and
   release of every acknowledged session, and the quiescent projection (account, reservation, recorded
   containers per session). *)
EXTENDS Integers, Sequences, FiniteSets, TLC, Json
CONSTANT TraceFile
VARIABLES l, viol, div
tvars == <<l, viol, div>>
Trace == ndJsonDeserialize(TraceFile)
Ev == Trace[l]
V(c, sit) == [prop |-> "C09", clause |-> c, trace |-> Ev.trace, step |-> Ev.seq, sit |-> sit]
ToSet(s) == {s[i] : i \in 1..Len(s)}
Kinds == {Ev.mix[i].kind : i \in 1..Len(Ev.mix)}
Sit == [mix |-> Kinds, gated |-> Ev.gated]

\* ---- lock events: who holds the subscriber lock of object ue after the first k events
Locks(p) == p \in {"create.locked", "update.locked", "release.locked", "recharge.locked"}
Unlocks(p) == p \in {"create.unlocking", "update.unlocking", "release.unlocking", "recharge.unlocking"}
Holder(ue, k) ==   \* set of threads holding ue's lock after event k
  {t \in 1..Len(Ev.mix) :
     \E i \in 1..k : Ev.events[i].t = t /\ Ev.events[i].ue = ue /\ Locks(Ev.events[i].p)
                     /\ ~\E j \in (i + 1)..k : Ev.events[j].t = t /\ Ev.events[j].ue = ue /\ Unlocks(Ev.events[j].p)}
MutexBroken == \E k \in 1..Len(Ev.events) : Ev.events[k].ue # 0 /\ Cardinality(Holder(Ev.events[k].ue, k)) > 1
UnlockedWrites == {k \in 1..Len(Ev.events) : Ev.events[k].p = "recharge.write" /\ Ev.events[k].t \notin Holder(Ev.events[k].ue, k)}
\* two different subscriber objects stored for one SUPI
Stored == {k \in 1..Len(Ev.events) : Ev.events[k].p = "uepool.stored"}
ContextOverwritten == \E a, b \in Stored : Ev.events[a].supi = Ev.events[b].supi /\ Ev.events[a].ue # Ev.events[b].ue

\* ---- quiescent clauses
Res == Ev.results
Acked == {i \in 1..Len(Res) : Res[i].kind = "create" /\ Res[i].status = 201}
AckedRefs == [i \in Acked |-> Res[i].ref]
Fol == Ev.follow
\* usage acknowledged with 200 / 204 per subscriber and session reference
UsedBy(u) == LET okr == {i \in 1..Len(Res) : Res[i].u = u /\ Res[i].kind \in {"update", "release"} /\ Res[i].status \in {200, 204}}
                 okf == {i \in 1..Len(Fol) : Fol[i].u = u /\ Fol[i].update = 200}
             IN [r |-> okr, f |-> okf]
RECURSIVE SumR(_), SumF(_)
SumR(S) == IF S = {} THEN 0 ELSE LET i == CHOOSE x \in S : TRUE IN Res[i].used + SumR(S \ {i})
SumF(S) == IF S = {} THEN 0 ELSE LET i == CHOOSE x \in S : TRUE IN Fol[i].used + SumF(S \ {i})
LsnsSent(u, ref) == {Res[i].lsn : i \in {i \in UsedBy(u).r : Res[i].ref = ref /\ Res[i].lsn # 0}} \cup {Fol[i].lsn : i \in {i \in UsedBy(u).f : Fol[i].ref = ref}}
Conserved(u) == LET q == Ev.quiescent[u] IN
                q.known => q.quota + q.reserved = Ev.credited - Ev.cost * (SumR(UsedBy(u).r) + SumF(UsedBy(u).f))
NoDup(s) == Cardinality(ToSet(s)) = Len(s)
ExactlyOnce(u) == LET q == Ev.quiescent[u] IN
                  q.known => \A ref \in DOMAIN q.lsns : NoDup(q.lsns[ref]) /\ ToSet(q.lsns[ref]) = LsnsSent(u, ref)
\* the CDR file of the subscriber, as its last writer left it, holds only records the CHF holds (same reference, same
\* containers in the same order): the writers of one subscriber are serialised by its lock, so the last write shows
\* the final state of every record it contains
FileConsistent(u) == LET q == Ev.quiescent[u] IN
                     q.known => /\ q.fileOk
                                /\ \A i \in 1..Len(q.fileRecs) : \E j \in 1..Len(q.memRecs) :
                                       q.fileRecs[i].ref = q.memRecs[j].ref /\ q.fileRecs[i].lsns = q.memRecs[j].lsns
AllRefsRecorded(u) == LET q == Ev.quiescent[u] IN
                      \A i \in UsedBy(u).r : Res[i].lsn = 0 \/    \* (a release without usage)
                                             (q.known /\ Res[i].ref \in DOMAIN q.lsns /\ Res[i].lsn \in ToSet(q.lsns[Res[i].ref]))

\* every recharge that was answered 204 for a subscriber with sessions took effect: one notification per recharge names its
\* rating group, and the rating group is served in reserve mode afterwards (the accounts of the mixes never run dry)
Recharges == {i \in 1..Len(Res) : Res[i].kind = "recharge" /\ Res[i].status = 204 /\ \E j \in 1..Len(Ev.existing) : Ev.existing[j].u = Res[i].u}
NotifCount(g) == Cardinality({k \in 1..Len(Ev.notifRgs) : ToString(Ev.notifRgs[k]) = g})
RechargeLost == \E i \in Recharges :
                   \/ NotifCount(Res[i].rg) # Cardinality({j \in Recharges : Res[j].rg = Res[i].rg})
                   \/ ~(Res[i].rg \in DOMAIN Ev.rtypes[Res[i].u] /\ Ev.rtypes[Res[i].u][Res[i].rg] = "reserve")
\* the notification is sent after the subscriber lock was given back (ChfConc: recharge.unlocking precedes the call to the
\* consumer): a request the consumer sends for that subscriber while it handles the notification is served meanwhile
ReauthStuck == Ev.reauth.asked /\ (Ev.reauth.timeout \/ Ev.reauth.status # 200)
Step ==
  /\ viol' = viol
       \cup (IF ReauthStuck THEN {V("all_requests_return", [Sit EXCEPT !.mix = {"recharge", "update-from-the-notified-consumer"}])} ELSE {})
       \cup (IF ~Ev.missed /\ RechargeLost THEN {V("recharge_not_lost", Sit)} ELSE {})
       \cup (IF Ev.missed THEN {V("all_requests_return", Sit)} ELSE {})
       \cup (IF \E i \in 1..Len(Res) : Res[i].status = -9 \/ Res[i].status >= 500 THEN {V("no_crash", Sit)} ELSE {})
       \cup (IF ~Ev.missed /\ \E i \in 1..Len(Fol) : Fol[i].timeout \/ Fol[i].update # 200 \/ Fol[i].release # 204
               THEN {V("acked_session_usable", Sit)} ELSE {})
       \cup (IF \E a, b \in Acked : a # b /\ Res[a].ref = Res[b].ref THEN {V("refs_unique", Sit)} ELSE {})
       \cup (IF ~Ev.missed /\ \E u \in DOMAIN Ev.quiescent : ~Conserved(u) THEN {V("quiescent_conservation", Sit)} ELSE {})
       \cup (IF ~Ev.missed /\ \E u \in DOMAIN Ev.quiescent : ~(ExactlyOnce(u) /\ AllRefsRecorded(u)) THEN {V("quiescent_exactly_once", Sit)} ELSE {})
       \cup (IF ~Ev.missed /\ \E u \in DOMAIN Ev.quiescent : ~FileConsistent(u) THEN {V("quiescent_file_matches", Sit)} ELSE {})
       \cup (IF MutexBroken THEN {V("mutual_exclusion", Sit)} ELSE {})
       \cup (IF UnlockedWrites # {} THEN {V("lockset_discipline", [Sit EXCEPT !.mix = {"recharge"}])} ELSE {})
       \cup (IF ContextOverwritten THEN {V("subscriber_context_unique", Sit)} ELSE {})
  /\ div' = div \cup (IF Ev.unreplayable # "" THEN {[trace |-> Ev.trace, step |-> Ev.seq, what |-> Ev.unreplayable]} ELSE {})
Finish == /\ l = Len(Trace) + 1
          /\ PrintT(<<"VF-RESULT", ToJson([consumed |-> l - 1, viol |-> viol, div |-> div])>>)
          /\ l' = l + 1 /\ UNCHANGED <<viol, div>>
TInit == l = 1 /\ viol = {} /\ div = {}
TNext == (l <= Len(Trace) /\ l' = l + 1 /\ Step) \/ Finish
TSpec == TInit /\ [][TNext]_tvars
=============================================================================
