------------------------------- MODULE Config -------------------------------
(***************************************************************************)
(* C20.  A configuration is abstracted to one variant per section / field.  *)
(*   Valid(c)    : what validation accepts (as intended, with the as-is    *)
(*                 deviations switched by the DEV constants)           *)
(*   Needs(c)    : the sections the runtime reads unconditionally when the *)
(*                 context is initialised and rating / account-balance /   *)
(*                 SBI components are opened                               *)
(*   MustReject  : configurations the property says are rejected           *)
(* On the model: Valid(c) => the start-up cannot crash.                    *)
(***************************************************************************)
EXTENDS Integers, Sequences, FiniteSets, TLC, Json

CONSTANTS DEV_TlsOptional,        \* TRUE: rfDiameter.tls / abmfDiameter.tls may be omitted in a valid configuration
          DEV_HttpsWithoutTls,    \* TRUE: scheme https is accepted without an sbi.tls block
          DEV_DuplicatesAccepted, \* TRUE: a service name may be listed twice
          MaxDist, EmitOneIn

Fields == <<"info", "logger", "name", "sbi", "scheme", "sbitls", "rf", "abmf", "cgf", "mongo", "svc", "nrf", "keylog">>
Dom(f) ==
  CASE f = "info"   -> {"ok", "absent", "badversion"}
    [] f = "logger" -> {"ok", "absent", "badlevel"}
    [] f = "name"   -> {"ok", "absent"}
    [] f = "sbi"    -> {"ok", "absent", "port0"}
    [] f = "scheme" -> {"http", "https", "ftp", "empty"}
    [] f = "sbitls" -> {"present", "absent"}
    \* "sctp" / "sctpnotls": protocol sctp instead of tcp, with / without the tls block
    [] f = "rf"     -> {"ok", "name", "badname", "absent", "notls", "port0", "port65536", "nohost", "sctp", "sctpnotls"}
    [] f = "abmf"   -> {"ok", "name", "badname", "absent", "notls", "port0", "port65536", "nohost", "sctp", "sctpnotls"}
    [] f = "cgf"    -> {"ok", "absent", "enabled"}
    [] f = "mongo"  -> {"ok", "absent", "nourl", "unix"}     \* "unix": the store behind a Unix domain socket (mongodb://%2F...sock)
    [] f = "svc"    -> {"one", "three", "unknown", "empty", "dup", "case"}
    [] f = "nrf"    -> {"ok", "absent", "nourl"}
    [] f = "keylog" -> {"none", "set"}      \* not a member of the file: whether the application is started with a TLS key log path
Baseline == [info |-> "ok", logger |-> "ok", name |-> "ok", sbi |-> "ok", scheme |-> "http", sbitls |-> "present",
             rf |-> "ok", abmf |-> "ok", cgf |-> "ok", mongo |-> "ok", svc |-> "one", nrf |-> "ok", keylog |-> "none"]
Cfgs == [info : Dom("info"), logger : Dom("logger"), name : Dom("name"), sbi : Dom("sbi"), scheme : Dom("scheme"),
         sbitls : Dom("sbitls"), rf : Dom("rf"), abmf : Dom("abmf"), cgf : Dom("cgf"), mongo : Dom("mongo"),
         svc : Dom("svc"), nrf : Dom("nrf"), keylog : Dom("keylog")]
Dist(c) == Cardinality({i \in 1..Len(Fields) : c[Fields[i]] # Baseline[Fields[i]]})

DiamOK(v) == v \in {"ok", "name", "badname", "sctp"} \/ (DEV_TlsOptional /\ v \in {"notls", "sctpnotls"})    \* "name": hostIPv4 given as a host name
Valid(c) ==
  /\ c.info = "ok" /\ c.logger = "ok" /\ c.name = "ok" /\ c.nrf = "ok" /\ c.mongo \in {"ok", "unix"}
  /\ c.sbi = "ok" /\ c.scheme \in {"http", "https"}
  /\ (c.scheme = "https" => (c.sbitls = "present" \/ DEV_HttpsWithoutTls))
  /\ DiamOK(c.rf) /\ DiamOK(c.abmf)
  /\ c.cgf \in {"ok", "enabled"}
  /\ (c.svc \in {"one", "three"} \/ (DEV_DuplicatesAccepted /\ c.svc = "dup"))

Present(c) ==
     (IF c.sbi # "absent" THEN {"sbi"} ELSE {}) \cup (IF c.sbi # "absent" /\ c.sbitls = "present" THEN {"sbi.tls"} ELSE {})
  \cup (IF c.rf # "absent" THEN {"rf"} ELSE {}) \cup (IF c.rf \notin {"absent", "notls", "sctpnotls"} THEN {"rf.tls"} ELSE {})
  \cup (IF c.abmf # "absent" THEN {"abmf"} ELSE {}) \cup (IF c.abmf \notin {"absent", "notls", "sctpnotls"} THEN {"abmf.tls"} ELSE {})
  \cup (IF c.cgf # "absent" THEN {"cgf"} ELSE {}) \cup (IF c.mongo # "absent" THEN {"mongo"} ELSE {})
Needs(c) == {"sbi", "rf", "rf.tls", "abmf", "abmf.tls", "cgf", "mongo"} \cup (IF c.scheme = "https" THEN {"sbi.tls"} ELSE {})
StartsOK(c) == Needs(c) \subseteq Present(c) /\ c.svc # "dup"      \* a duplicated service registers its routes twice
MustReject(c) ==
  \/ c.svc \in {"unknown", "case"}
  \/ c.scheme \notin {"http", "https"}
  \/ c.info = "absent" \/ c.logger = "absent" \/ c.sbi = "absent" \/ c.rf = "absent" \/ c.abmf = "absent"
  \/ c.cgf = "absent" \/ c.mongo = "absent"

VARIABLES c, done
vars == <<c, done>>
Init == c = Baseline /\ done = FALSE
Pick == ~done /\ c' \in Cfgs /\ done' = TRUE
Next == Pick
Spec == Init /\ [][Next]_vars
View == vars
InvValidStarts == done /\ Valid(c) => (StartsOK(c) \/ (PrintT(<<"VF-CEX", ToJson(<<[cfg |-> c, valid |-> TRUE, must_reject |-> FALSE]>>)>>) /\ FALSE))
InvMustRejectInvalid == done /\ MustReject(c) => ~Valid(c)
EmitBehaviour == IF Dist(c') <= MaxDist /\ RandomElement(1..EmitOneIn) = 1
                   THEN PrintT(<<"VF-BEH", ToJson(<<[cfg |-> c', valid |-> Valid(c'), must_reject |-> MustReject(c')]>>)>>) ELSE TRUE
=============================================================================
