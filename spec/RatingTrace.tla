----------------------------- MODULE RatingTrace -----------------------------
(* Trace validation for C08: each line is one case executed against the REAL rating server over a TLS
   Diameter connection (the request, a one-unit DEBIT probe revealing the cost the server applies, and the
   CHF-side getUnitCost against the same server). *)
EXTENDS Rating, Json
CONSTANT TraceFile
VARIABLES l, viol, div
tvars == <<l, viol, div>>
Trace == ndJsonDeserialize(TraceFile)
Ev == Trace[l]
\* a request outside the statement (unknown subscriber / rating group), interleaved with the cases: the model's server is
\* silent for it; an answer is noted as a divergence, never a verdict
Noise == /\ Ev.action = "noise"
         /\ viol' = viol
         /\ div' = div \cup (IF Ev.got THEN {[trace |-> Ev.trace, step |-> Ev.seq, class |-> "unknown " \o Ev.unknown, sub |-> "answered"]} ELSE {})
\* the stored tariff changes between two reads while ONE request is served: whatever cost the server applied, the tariff
\* it puts into that answer is that cost (small plain numbers; exponent 0 for the integer tariffs used here)
Pow10(n) == IF n <= 0 THEN 1 ELSE IF n = 1 THEN 10 ELSE IF n = 2 THEN 100 ELSE 1000
Flip ==
  /\ Ev.action = "flip"
  /\ LET r == Ev.result
         tc == IF r.digits >= 0 /\ r.exp >= 0 /\ r.exp <= 3 THEN r.digits * Pow10(r.exp) ELSE -1
         V(c) == [prop |-> "C08", clause |-> c, trace |-> Ev.trace, step |-> Ev.seq,
                  sit |-> [class |-> "changing", sub |-> Ev.args.sub, concurrent |-> FALSE]]
         ok == /\ r.got /\ tc > 0
               /\ (Ev.args.sub = "debit" => r.price = Ev.args.used * tc)
               /\ (Ev.args.sub = "reserve" => r.allowed = Ev.args.money \div tc /\ r.price = r.allowed * tc)
     IN /\ viol' = viol \cup (IF ~r.got THEN {V("answered")} ELSE {})
                        \cup (IF r.got /\ ~ok THEN {V("answer_tariff_is_cost_applied")} ELSE {})
        /\ div' = div
StepSur ==
  LET cs  == Ev.args.cost
      r   == [sub |-> Ev.args.sub, consumed |-> Ev.args.consumed, quota |-> Ev.args.quota]
      obs == [got |-> Ev.result.got, price |-> Ev.result.price, allowed |-> Ev.result.allowed]
      srv == [got |-> Ev.result.probe.got, cost |-> Ev.result.probe.price]
      cli == [got |-> Ev.result.client.got, cost |-> Ev.result.client.cost]
      exp == HandleSUR(cs, r)
      \* sent together with other subscribers' requests: CHF-side decoding not repeated; or the tree's decoding helper could
      \* not be reached by the harness (another signature): CHF-side clauses not evaluated, reported as a divergence
      unav == "unavailable" \in DOMAIN Ev.result.client
      conc == "concurrent" \in DOMAIN Ev \/ unav
      V(c) == [prop |-> "C08", clause |-> c, trace |-> Ev.trace, step |-> Ev.seq,
               sit |-> [class |-> Class(cs), sub |-> r.sub, concurrent |-> conc]]
  IN /\ viol' = viol
          \cup (IF Answered(obs) /\ srv.got THEN {} ELSE {V("answered")})
          \cup (IF DebitPriceExact(cs, r, obs) THEN {} ELSE {V("debit_price_exact")})
          \cup (IF ReserveAllowedFloor(cs, r, obs) THEN {} ELSE {V("reserve_allowed_floor")})
          \cup (IF conc \/ ClientAgrees(srv, cli) THEN {} ELSE {V("client_cost_equals_server")})
          \cup (IF conc \/ ClientCostIsStored(cs, cli) THEN {} ELSE {V("client_cost_is_stored")})
     /\ div' = div \cup (IF unav THEN {[trace |-> "all", step |-> 0, class |-> "CHF-side tariff decoding not reachable", sub |-> ""]} ELSE {})
                   \cup (IF Class(cs) = "other" \/ (exp.got = obs.got /\ (exp.got => (exp.price = obs.price /\ exp.allowed = obs.allowed)))
                         THEN {} ELSE {[trace |-> Ev.trace, step |-> Ev.seq, class |-> Class(cs), sub |-> r.sub]})
Step == Ev.action = "sur" /\ StepSur
Finish == /\ l = Len(Trace) + 1
          /\ PrintT(<<"VF-RESULT", ToJson([consumed |-> l - 1, viol |-> viol, div |-> div])>>)
          /\ l' = l + 1 /\ UNCHANGED <<viol, div>>
TInit == l = 1 /\ viol = {} /\ div = {}
TNext == (l <= Len(Trace) /\ l' = l + 1 /\ (Step \/ Noise \/ Flip)) \/ Finish
TSpec == TInit /\ [][TNext]_tvars
=============================================================================
