------------------------------ MODULE DiamTables ------------------------------
(* C17 (2): consistency predicates over the tables extracted from the code on every run: every avp struct
   tag of the message structures (with its Go type) against the dictionaries the components load. *)
EXTENDS Integers, Sequences, FiniteSets, TLC, Json
StringKinds == {"UTF8String", "OctetString", "DiameterIdentity"}
Compatible(go, dt) == go = dt \/ (go \in StringKinds /\ dt \in StringKinds)
Unresolved(tags) == {t \in tags : t.avp # "" /\ ~t.found}
Untagged(tags) == {t \in tags : t.avp = ""}
Mismatched(tags) == {t \in tags : t.found /\ ~Compatible(t.gotype, t.dicttype)}
\* two different AVP names used by the message structures that resolve to the same (code, vendor)
CodeClashes(tags) ==
  {{p[1].avp, p[2].avp} : p \in {q \in tags \X tags : q[1].found /\ q[2].found /\ q[1].avp # q[2].avp
                                                     /\ q[1].code = q[2].code /\ q[1].vendor = q[2].vendor}}
\* one name defined differently by the dictionaries the components load
NameConflicts(avps) ==
  {<<a.name, a.dict, b.dict>> : <<a, b>> \in {p \in avps \X avps : p[1].name = p[2].name /\
        (p[1].code # p[2].code \/ p[1].vendor # p[2].vendor \/ (p[1].type # p[2].type /\ p[1].type # "" /\ p[2].type # "")) /\ p[1].dict = "rate" /\ p[2].dict = "abmf"}}
=============================================================================
