------------------------------ MODULE AcctInd ------------------------------
(***************************************************************************)
(* The accounting core of ONE (subscriber, rating group) account, as       *)
(* sessionChargingReservation and pkg/abmf implement it, abstracted to     *)
(* integers.  Two uses:                                                    *)
(*  * Apalache proves Conservation INDUCTIVE (Init => IndInv at length 0,  *)
(*    IndInit /\ Next => IndInv' at length 1) for unbounded balances,      *)
(*    reservations and usage -- an argument no bounded exploration gives.  *)
(*  * ChfSeqMC instantiates this module once per account key with the      *)
(*    implementation-shaped state (st, h) substituted for the variables,   *)
(*    and TLC checks  [][\A k : Abs(k)!Next \/ UNCHANGED]_vars : every step *)
(*    of the implementation-shaped model is, per account, a step of this   *)
(*    abstract machine (refinement), so the inductive argument applies to  *)
(*    the model that is bound to the code.                                 *)
(***************************************************************************)
EXTENDS Integers

CONSTANTS
  \* @type: Int;
  UMax,      \* bound on units reported per step
  \* @type: Int;
  QMax,      \* bound on units asked for per step
  \* @type: Int;
  AMax       \* bound on a top-up

VARIABLES
  \* @type: Int;
  cost,
  \* @type: Int;
  acct,
  \* @type: Int;
  res,
  \* @type: Int;
  credited,
  \* @type: Int;
  used,
  \* @type: Str;
  mode

vars == <<cost, acct, res, credited, used, mode>>
Min(a, b) == IF a < b THEN a ELSE b

ConstInit == UMax = 100000 /\ QMax = 100000 /\ AMax = 1000000
Init == /\ cost \in 1..1000 /\ acct \in 0..1000000 /\ credited = acct /\ res = 0 /\ used = 0 /\ mode = "reserve"

\* reserve branch: u units reported, q units asked for (0 when requestedUnit is absent).  The account server
\* grants min(asked, balance) and says "final units" when the balance is smaller.
Reserve(u, q) ==
  /\ mode = "reserve"
  /\ LET r1   == res - u * cost
         want == q * cost - r1
         g    == IF want > 0 THEN Min(want, acct) ELSE 0
     IN /\ acct' = acct - g
        /\ res' = r1 + g
        /\ mode' = IF want > 0 /\ want > acct THEN "debit" ELSE "reserve"
  /\ used' = used + u /\ UNCHANGED <<cost, credited>>
\* debit branch (the rating group is in debit mode, or the report carries FINAL): u units are priced, the rest of
\* the reservation is refunded or the shortfall debited, the reservation ends
DebitBody(u) ==
  /\ LET price == u * cost IN
     /\ acct' = acct + (res - price)
     /\ mode' = IF price < res THEN "reserve" ELSE "debit"
  /\ res' = 0 /\ used' = used + u /\ UNCHANGED <<cost, credited>>
Debit(u) == mode = "debit" /\ DebitBody(u)
FinalDebit(u) == mode = "reserve" /\ DebitBody(u)
TopUp(a) == acct' = acct + a /\ credited' = credited + a /\ UNCHANGED <<cost, res, used, mode>>
Recharge == mode' = "reserve" /\ UNCHANGED <<cost, acct, res, credited, used>>

Next == \/ \E u \in 0..UMax, q \in 0..QMax : Reserve(u, q)
        \/ \E u \in 0..UMax : Debit(u) \/ FinalDebit(u)
        \/ \E a \in 1..AMax : TopUp(a)
        \/ Recharge

TypeOK == mode \in {"reserve", "debit"} /\ cost >= 1
Conservation == acct + res = credited - cost * used
IndInv == TypeOK /\ Conservation
IndInit == /\ cost \in Int /\ acct \in Int /\ res \in Int /\ credited \in Int /\ used \in Int /\ mode \in {"reserve", "debit"}
           /\ IndInv
=============================================================================
