SPECIFICATION Spec
CONSTANTS
  DEV_GrantFromRequest = TRUE
  DEV_LastRecordOverride = TRUE
  DEV_CCBeforeLookup = TRUE
  DEV_Release400 = TRUE
  DEV_RefConcat = TRUE
  DEV_NoGuardOnRelease = TRUE
  Subs = {"1"}
  RGs = {"1"}
  Consumers = {"a"}
  AcctChoices = {<<5, 1>>, <<7, 2>>, <<0, 3>>}
  Reqs = {2, 4}
  Vols = {0, 1, 3}
  Modes = {"on"}
  TrigSets = {"none", "final", "partial"}
  TopUps = {6}
  MaxSteps = 5
  MaxSess = 1
  Limit = 100
  Pads = {0}
  CreateConts = {0}
  TwoEntries = FALSE
  BadRefs = FALSE
  WellBehaved = FALSE
  Lrsn0 = 0
  Recharges = TRUE
VIEW View
INVARIANT InvConservation
ACTION_CONSTRAINT EmitBehaviour
CHECK_DEADLOCK FALSE
