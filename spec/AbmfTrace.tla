------------------------------ MODULE AbmfTrace ------------------------------
(* Trace validation for C07: every recorded credit-control exchange with the REAL account
   server is judged by the clauses of Abmf (observer layer) and compared with HandleCCR applied
   to the observed pre-state (refinement layer). *)
EXTENDS Abmf, Json
CONSTANT TraceFile
VARIABLES l, pre, viol, div
tvars == <<l, pre, viol, div>>
Trace == ndJsonDeserialize(TraceFile)
Ev == Trace[l]
ObsDb(s) == [k \in DOMAIN s |-> [neg |-> s[k].neg, mag |-> s[k].mag]]
ObsAns(r) == IF r.why # "" THEN NoAns
             ELSE [got |-> TRUE, echo |-> r.ans.echo, sid |-> r.ans.sid, type |-> r.ans.type, num |-> r.ans.num,
                   mscc |-> r.ans.mscc, granted |-> r.ans.granted, fui |-> r.ans.fui]
Req == [key |-> Ev.args.key, action |-> Ev.args.action, type |-> Ev.args.type, num |-> Ev.args.num,
        sid |-> Ev.args.sid, amt |-> Ev.args.amt, form |-> Ev.args.form]
SameAns(a, b) == a.got = b.got /\ (a.got => (a.echo = b.echo /\ a.mscc = b.mscc /\ a.fui = b.fui /\ a.granted = b.granted
                                             /\ (a.echo => (a.sid = b.sid /\ a.type = b.type /\ a.num = b.num))))
Reset == /\ Ev.action = "reset" /\ pre' = ObsDb(Ev.state) /\ UNCHANGED <<viol, div>>
Step ==
  /\ Ev.action = "ccr"
  /\ LET obs == ObsDb(Ev.state)
         ans == ObsAns(Ev.result)
         exp == HandleCCR(pre, Req)
         bad == Failing(pre, Req, obs, ans)
     IN /\ pre' = obs
        /\ viol' = viol \cup {[prop |-> "C07", clause |-> n, trace |-> Ev.trace, step |-> Ev.seq,
                              sit |-> [action |-> Req.action, type |-> Req.type, known |-> Req.key \in DOMAIN pre]] : n \in bad}
        /\ div' = div \cup (IF (\A k \in DOMAIN obs : k \in DOMAIN exp.db /\ SEq(exp.db[k], obs[k])) /\ SameAns(exp.ans, ans) THEN {}
                            ELSE {[trace |-> Ev.trace, step |-> Ev.seq, action |-> Req.action, type |-> Req.type,
                                   what |-> [db |-> ~(\A k \in DOMAIN obs : k \in DOMAIN exp.db /\ SEq(exp.db[k], obs[k])),
                                             ans |-> ~SameAns(exp.ans, ans)]]})
\* two reservations written back to back on one connection: served in turn (small plain numbers)
Min2(x, y) == IF x < y THEN x ELSE y
Pair ==
  /\ Ev.action = "pair"
  /\ LET g1 == Min2(Ev.a, Ev.balance)  b1 == Ev.balance - g1
         g2 == Min2(Ev.b, b1)          b2 == b1 - g2
         ok == /\ Ev.ans["1"].granted = g1 /\ Ev.ans["1"].fui = (Ev.a > Ev.balance)
               /\ Ev.ans["2"].granted = g2 /\ Ev.ans["2"].fui = (Ev.b > b1)
               /\ Ev.left = b2
     IN /\ viol' = viol \cup (IF ok THEN {} ELSE {[prop |-> "C07", clause |-> "pipelined_requests_served_in_turn", trace |-> Ev.trace, step |-> Ev.seq,
                                                     sit |-> [balance |-> Ev.balance, a |-> Ev.a, b |-> Ev.b]]})
        /\ UNCHANGED <<pre, div>>
\* a request on a connection the peer kept open and left quiet for a while is answered like any other
Idle ==
  /\ Ev.action = "idle"
  /\ viol' = viol \cup (IF Ev.first /\ Ev.second THEN {} ELSE {[prop |-> "C07", clause |-> "answered", trace |-> Ev.trace, step |-> Ev.seq,
                                                                   sit |-> [action |-> "debit", type |-> "update", known |-> TRUE, after_quiet_ms |-> Ev.quiet_ms]]})
  /\ UNCHANGED <<pre, div>>
Finish == /\ l = Len(Trace) + 1
          /\ PrintT(<<"VF-RESULT", ToJson([consumed |-> l - 1, viol |-> viol, div |-> div])>>)
          /\ l' = l + 1 /\ UNCHANGED <<pre, viol, div>>
TInit == l = 1 /\ pre = <<>> /\ viol = {} /\ div = {}
TNext == (l <= Len(Trace) /\ l' = l + 1 /\ (Reset \/ Step \/ Pair \/ Idle)) \/ Finish
TSpec == TInit /\ [][TNext]_tvars
=============================================================================
