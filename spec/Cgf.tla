-------------------------------- MODULE Cgf --------------------------------
(***************************************************************************)
(* CDR transfer to the billing domain (internal/cgf + the call sites in    *)
(* internal/sbi/processor).  The CHF keeps ONE FTP control connection to   *)
(* the charging gateway and, after a charging operation, re-sends the      *)
(* subscriber's CDR file:                                                  *)
(*   create  : no file is written; SendCDR re-sends what is there (if any) *)
(*   update  : the file is rewritten with all records, then SendCDR        *)
(*   release : the file is rewritten with the released record only and --  *)
(*             as the code stands -- NOT sent (DEV_ReleaseNotTransferred)  *)
(*   SendCDR : no connection -> Login (dial + USER/PASS); else NOOP, and   *)
(*             on failure Login again; any failure is logged and the       *)
(*             charging operation is answered as if nothing had happened;  *)
(*             then STOR <supi>.cdr                                        *)
(* The gateway may go away (all control connections die) and come back.    *)
(* Files are abstracted to version numbers: local[u] counts the rewrites   *)
(* of /tmp/<u>.cdr, remote[u] is the version the gateway holds.            *)
(* Not one of the listed properties: this module extends the coverage of   *)
(* the specification; deviations are reported as divergences.              *)
(***************************************************************************)
EXTENDS Integers, Sequences, FiniteSets, TLC, TLCExt, Json

CONSTANTS Subs, Sess, MaxSteps, DEV_ReleaseNotTransferred

VARIABLES local, remote, open, up, conn, hist
vars == <<local, remote, open, up, conn, hist>>

Init == /\ local = [u \in Subs |-> 0] /\ remote = [u \in Subs |-> 0]
        /\ open = {} /\ up = TRUE /\ conn = "live"      \* cgf.Serve logs in when the component starts
        /\ hist = << [a |-> "setup"] >>

\* SendCDR for u with the local version lv: <<conn', remote'[u], sent>>
Send(u, lv) ==
  LET c2 == IF conn = "live" /\ up THEN "live"            \* NOOP answered
            ELSE IF up THEN "live"                         \* (re-)login succeeds
            ELSE conn                                      \* dial fails: the stale handle is kept
      ok == up /\ lv > 0                                   \* a missing file is an error after the connection handling
  IN [conn |-> c2, rv |-> IF ok THEN lv ELSE remote[u], sent |-> ok]

Sig(a, u, r) == ToString(<<a, up, conn, local[u] > 0, remote[u] = local[u], r.sent>>)

Create(u, s) ==
  /\ <<u, s>> \notin open
  /\ LET r == Send(u, local[u]) IN
     /\ conn' = r.conn /\ remote' = [remote EXCEPT ![u] = r.rv]
     /\ hist' = Append(hist, [a |-> "create", u |-> u, s |-> s, sig |-> Sig("create", u, r)])
  /\ open' = open \cup {<<u, s>>} /\ UNCHANGED <<local, up>>
Update(u, s) ==
  /\ <<u, s>> \in open
  /\ LET lv == local[u] + 1  r == Send(u, lv) IN
     /\ local' = [local EXCEPT ![u] = lv]
     /\ conn' = r.conn /\ remote' = [remote EXCEPT ![u] = r.rv]
     /\ hist' = Append(hist, [a |-> "update", u |-> u, s |-> s, sig |-> Sig("update", u, r)])
  /\ UNCHANGED <<open, up>>
Release(u, s) ==
  /\ <<u, s>> \in open
  /\ LET lv == local[u] + 1
         r  == IF DEV_ReleaseNotTransferred THEN [conn |-> conn, rv |-> remote[u], sent |-> FALSE] ELSE Send(u, lv) IN
     /\ local' = [local EXCEPT ![u] = lv]
     /\ conn' = r.conn /\ remote' = [remote EXCEPT ![u] = r.rv]
     /\ hist' = Append(hist, [a |-> "release", u |-> u, s |-> s, sig |-> Sig("release", u, r)])
  /\ open' = open \ {<<u, s>>} /\ UNCHANGED up
Stop  == /\ up /\ up' = FALSE /\ conn' = IF conn = "live" THEN "dead" ELSE conn
         /\ hist' = Append(hist, [a |-> "stop", u |-> "", s |-> "", sig |-> "stop"]) /\ UNCHANGED <<local, remote, open>>
Start == /\ ~up /\ up' = TRUE
         /\ hist' = Append(hist, [a |-> "start", u |-> "", s |-> "", sig |-> "start"]) /\ UNCHANGED <<local, remote, open, conn>>

Next == /\ Len(hist) - 1 < MaxSteps
        /\ (Stop \/ Start \/ \E u \in Subs, s \in Sess : Create(u, s) \/ Update(u, s) \/ Release(u, s))
Spec == Init /\ [][Next]_vars
View == <<local, remote, open, up, conn, Len(hist)>>

\* what the design promises (checked on the model)
Fresh(u) == local[u] > 0 /\ remote[u] = local[u]
\* the gateway never holds a version that was not written
NeverAhead == \A u \in Subs : remote[u] <= local[u]
\* while the gateway is reachable, the copy lags only behind releases (the as-is deviation)
LastStep == hist[Len(hist)]
SentWhenReachable == (Len(hist) > 1 /\ LastStep.a = "update" /\ up) => Fresh(LastStep.u)

Fp(v) == <<TLCFP(v), TLCFP(<<v, 1>>)>>
EmitEdge == PrintT(<<"VF-EDGE", ToJson([s |-> Fp(View), d |-> Fp(View'), step |-> hist'[Len(hist')],
                                        setup |-> IF Len(hist) = 1 THEN hist[1] ELSE [a |-> "-"]])>>)
=============================================================================
