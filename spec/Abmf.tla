-------------------------------- MODULE Abmf --------------------------------
(***************************************************************************)
(* pkg/abmf handleCCR: the account-balance server, one credit-control      *)
(* request = one atomic step  HandleCCR(db, ccr) -> [db, ans].             *)
(*   db  : account key -> signed Big balance                               *)
(*   ccr : [key, action, type, num, sid, amt]   (amt: Big magnitude)       *)
(*   ans : [got, echo, sid, type, num, mscc, granted, fui]  (got=FALSE: no answer) *)
(* As-is deviations are switched by DEV_* constants.                       *)
(***************************************************************************)
EXTENDS Integers, Sequences, TLC
INSTANCE Big

CONSTANT DEV_EchoOnlyOnDebit   \* TRUE: REFUND / CHECK_BALANCE / PRICE_ENQUIRY are answered with an empty CCA

Actions == {"debit", "refund", "check", "enquiry"}
Types   == {"initial", "update", "termination", "event"}

NoAns == [got |-> FALSE, echo |-> FALSE, sid |-> "", type |-> "", num |-> 0, mscc |-> FALSE, granted |-> <<>>, fui |-> FALSE]
NoMscc(c, echo) == [got |-> TRUE, echo |-> echo, sid |-> IF echo THEN c.sid ELSE "", type |-> IF echo THEN c.type ELSE "",
                    num |-> IF echo THEN c.num ELSE 0, mscc |-> FALSE, granted |-> <<>>, fui |-> FALSE]

\* the stored balance is an int64 in the code: results outside -2^63 .. 2^63-1 wrap (two's complement).  The property
\* clauses that speak about exact amounts apply when the exact result fits (Fits63); the wrap keeps the as-is model in
\* step with the code elsewhere.
P64 == [neg |-> FALSE, mag |-> <<0, 0, 0, 0, 16>>]
Top63 == [neg |-> FALSE, mag |-> <<32767, 32767, 32767, 32767, 7>>]
Bot63 == [neg |-> TRUE, mag |-> <<0, 0, 0, 0, 8>>]
W64(x) == IF SCmp(x, Top63) > 0 THEN SSub(x, P64) ELSE IF SCmp(x, Bot63) < 0 THEN SAdd(x, P64) ELSE x

HandleCCR(db, c) ==
  IF c.key \notin DOMAIN db \/ c.form = "e164"
    THEN [db |-> db, ans |-> NoAns]     \* no document -- or a subscriber not identified by an IMSI -- : silently dropped
  ELSE
  LET q   == db[c.key]
      amt == [neg |-> FALSE, mag |-> c.amt]
  IN
  CASE c.action = "check"   -> [db |-> db, ans |-> NoMscc(c, ~DEV_EchoOnlyOnDebit)]
    [] c.action = "enquiry" -> [db |-> db, ans |-> NoMscc(c, ~DEV_EchoOnlyOnDebit)]
    [] c.action = "refund"  -> [db |-> [db EXCEPT ![c.key] = W64(SAdd(q, amt))], ans |-> NoMscc(c, ~DEV_EchoOnlyOnDebit)]
    [] c.action = "debit" ->
         IF c.type \in {"initial", "update"} THEN
           LET exceeds == SCmp(amt, q) > 0
               g == IF exceeds THEN q ELSE amt
           IN [db |-> [db EXCEPT ![c.key] = W64(SSub(q, g))],
               ans |-> [got |-> TRUE, echo |-> TRUE, sid |-> c.sid, type |-> c.type, num |-> c.num, mscc |-> TRUE,
                        granted |-> IF SIsNeg(g) THEN SAdd(g, P64).mag ELSE g.mag,    \* Unsigned64(negative int64) wraps
                        fui |-> exceeds]]
         ELSE IF c.type = "termination" THEN
           [db |-> [db EXCEPT ![c.key] = W64(SSub(q, amt))], ans |-> NoMscc(c, TRUE)]
         ELSE [db |-> db, ans |-> NoMscc(c, TRUE)]

-----------------------------------------------------------------------------
(* Property clauses (C07) on one observed step: pre-db, request, post-db, answer.  Each returns
   TRUE when the clause holds or does not apply. *)
Max63 == <<32767, 32767, 32767, 32767, 7>>      \* 2^63 - 1
Fits63(x) == MCmp(x.mag, Max63) <= 0
\* c.form: "plain" | "e164" (Subscription-Id-Type E.164: no such subscriber) | "both" (the request carries the other
\* unit AVP as well -- Used-Service-Unit next to the requested units of a reservation, and vice versa -- which the
\* statement gives no meaning: grants, debits and refunds are as without it)
Known(db, c) == c.key \in DOMAIN db /\ c.form # "e164"
IsReserve(c) == c.action = "debit" /\ c.type \in {"initial", "update"}
NonNeg(x) == ~SIsNeg(x)

GrantIsMin(db, c, ans) ==
  (Known(db, c) /\ IsReserve(c) /\ NonNeg(db[c.key])) =>
     (ans.got /\ ans.mscc /\ ans.granted = SMin([neg |-> FALSE, mag |-> c.amt], db[c.key]).mag)
FuiIffExceeds(db, c, ans) ==
  (Known(db, c) /\ IsReserve(c) /\ NonNeg(db[c.key]) /\ ans.got) =>
     (ans.fui <=> SCmp([neg |-> FALSE, mag |-> c.amt], db[c.key]) > 0)
LoweredByGrant(db, c, db2, ans) ==
  (Known(db, c) /\ IsReserve(c) /\ NonNeg(db[c.key]) /\ ans.got /\ ans.mscc) =>
     (SEq(db2[c.key], SSub(db[c.key], [neg |-> FALSE, mag |-> ans.granted])) /\ NonNeg(db2[c.key]))
RefundExact(db, c, db2) ==
  (Known(db, c) /\ c.action = "refund" /\ Fits63(SAdd(db[c.key], [neg |-> FALSE, mag |-> c.amt]))) =>
     SEq(db2[c.key], SAdd(db[c.key], [neg |-> FALSE, mag |-> c.amt]))
TerminationExact(db, c, db2) ==
  (Known(db, c) /\ c.action = "debit" /\ c.type = "termination"
      /\ Fits63(SSub(db[c.key], [neg |-> FALSE, mag |-> c.amt]))) =>
     SEq(db2[c.key], SSub(db[c.key], [neg |-> FALSE, mag |-> c.amt]))
AnswerEchoes(c, ans) ==
  ans.got => (ans.sid = c.sid /\ ans.type = c.type /\ ans.num = c.num)
Answered(db, c, ans) ==
  (Known(db, c) /\ (c.action = "refund" \/ (c.action = "debit" /\ c.type # "event"))) => ans.got
OthersUntouched(db, c, db2) ==
  \A k \in DOMAIN db : (k # c.key \/ ~Known(db, c)) => (k \in DOMAIN db2 /\ SEq(db2[k], db[k]))
NoEffectActions(db, c, db2) ==
  (Known(db, c) /\ (c.action \in {"check", "enquiry"} \/ (c.action = "debit" /\ c.type = "event"))) =>
     SEq(db2[c.key], db[c.key])

ClauseNames == {"grant_is_min", "fui_iff_exceeds", "lowered_by_grant", "refund_exact", "termination_exact",
                "answer_echoes", "answered", "others_untouched", "no_effect_actions"}
Failing(db, c, db2, ans) ==
  {n \in ClauseNames :
     ~ CASE n = "grant_is_min"      -> GrantIsMin(db, c, ans)
         [] n = "fui_iff_exceeds"   -> FuiIffExceeds(db, c, ans)
         [] n = "lowered_by_grant"  -> LoweredByGrant(db, c, db2, ans)
         [] n = "refund_exact"      -> RefundExact(db, c, db2)
         [] n = "termination_exact" -> TerminationExact(db, c, db2)
         [] n = "answer_echoes"     -> AnswerEchoes(c, ans)
         [] n = "answered"          -> Answered(db, c, ans)
         [] n = "others_untouched"  -> OthersUntouched(db, c, db2)
         [] n = "no_effect_actions" -> NoEffectActions(db, c, db2)}
=============================================================================
