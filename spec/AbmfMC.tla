------------------------------- MODULE AbmfMC -------------------------------
(* All sequences of up to MaxSteps credit-control requests over a few accounts, an unknown
   subscriber and an unknown rating group, with boundary amounts up to 2^63-1 (Big). *)
EXTENDS Abmf, Json, TLCExt

CONSTANTS Keys,        \* existing accounts
          UnknownKeys, \* keys with no document
          Balances,    \* initial balances (Big magnitudes)
          Amounts,     \* request amounts (Big magnitudes)
          MaxSteps, EmitOneIn, ActionSet, TypeSet,
          Forms        \* subset of {"plain", "e164", "both"}

VARIABLES db, hist, flags
vars == <<db, hist, flags>>

Init == /\ \E f \in [Keys -> Balances] :
              /\ db = [k \in Keys |-> [neg |-> FALSE, mag |-> f[k]]]
              /\ hist = << [a |-> "setup", accts |-> [k \in Keys |-> f[k]]] >>
        /\ flags = {}

\* structural signature of a step (for the runner's path selection): which branch served the request and how
\* the balance related to the amount
StepSig(d, c, r) ==
  ToString(<<c.action, c.type, c.form,
             IF c.key \in DOMAIN d
               THEN <<"known", MCmp(c.amt, d[c.key].mag), d[c.key].mag = <<>>, SIsNeg(d[c.key]), d[c.key] # r.db[c.key]>>
               ELSE <<"unknown", c.key>> >>)

Step ==
  \E k \in Keys \cup UnknownKeys, act \in ActionSet, ty \in TypeSet, amt \in Amounts, fm \in Forms :
     LET n == Len(hist) - 1
         c == [key |-> k, action |-> act, type |-> ty, num |-> n, sid |-> "s" \o ToString(n), amt |-> amt, form |-> fm]
         r == HandleCCR(db, c)
     IN /\ db' = r.db
        /\ flags' = Failing(db, c, r.db, r.ans)
        /\ hist' = Append(hist, [a |-> "ccr", key |-> k, action |-> act, type |-> ty, num |-> n, sid |-> c.sid, amt |-> amt, form |-> fm,
                                 sig |-> StepSig(db, c, r)])

Next == Len(hist) - 1 < MaxSteps /\ Step
Spec == Init /\ [][Next]_vars
View == <<db, flags, Len(hist)>>
Fp(v) == <<TLCFP(v), TLCFP(<<v, 1>>)>>
EmitEdge == PrintT(<<"VF-EDGE", ToJson([s |-> Fp(View), d |-> Fp(View'), step |-> hist'[Len(hist')],
                                        setup |-> IF Len(hist) = 1 THEN hist[1] ELSE [a |-> "-"]])>>)
EmitBehaviour == IF RandomElement(1..EmitOneIn) = 1 THEN PrintT(<<"VF-BEH", ToJson(hist')>>) ELSE TRUE
InvClauses == flags = {} \/ (PrintT(<<"VF-CEX", ToJson(hist)>>) /\ FALSE)
\* balances stored after a reservation are never negative when they were not negative before
InvNoNegativeAfterReserve == TRUE
=============================================================================
