---------------------------- MODULE CdrFileTrace ----------------------------
(* C14 / C15 judge.  Each line: the structure given to the real CDRFile.Encoding, the octets it wrote
   (large payload runs tokenised by plain substring search), and what the real Decoding returned. *)
EXTENDS CdrFile, Json
CONSTANT TraceFile
VARIABLES l, viol, div
tvars == <<l, viol, div>>
Trace == ndJsonDeserialize(TraceFile)
Ev == Trace[l]
V(p, c, sit) == [prop |-> p, clause |-> c, trace |-> Ev.trace, step |-> Ev.seq, sit |-> sit]
Sit == [hiRel |-> Ev.s.hdr.hiRel, loRel |-> Ev.s.hdr.loRel, ncdr |-> Len(Ev.s.cdrs),
        filter |-> Len(Ev.s.hdr.filter), ext |-> Len(Ev.s.hdr.ext), mem |-> Ev.mem, pre |-> Ev.pre]
Step ==
  LET s == Ev.s
      wf == WellFormedStruct(s)
      exp == FileBytes(s)
      rd == ParseFile(Ev.bytes)
      \* the independent reader is run on what was written unless that is (a) exactly FileBytes(s) -- then the model's own
      \* invariant InvSpecRoundTrip has settled it for this structure -- or (b) tens of thousands of explicit octets that
      \* do not follow the layout (the layout clause has fired already; walking them octet by octet takes TLC minutes)
      readerFails == Ev.bytes # exp /\ Len(Ev.bytes) <= 6000 /\ ~(rd.ok /\ rd.s = Canon(s))
  IN /\ viol' = viol
       \cup (IF wf /\ Ev.encErr # "" THEN {V("C15", "encoding_fails", Sit)} ELSE {})
       \cup (IF wf /\ Ev.encErr = "" /\ Ev.bytes # exp THEN {V("C15", "bytes_follow_layout", Sit)} ELSE {})
       \cup (IF wf /\ Ev.encErr = "" /\ readerFails THEN {V("C15", "independent_reader_recovers", Sit)} ELSE {})
       \cup (IF wf /\ Ev.encErr = "" /\ Ev.decErr # "" THEN {V("C14", "decoding_fails", Sit)} ELSE {})
       \cup (IF wf /\ Ev.encErr = "" /\ Ev.decErr = "" /\ Canon(Ev.decoded) # Canon(s) THEN {V("C14", "round_trip", Sit)} ELSE {})
     /\ div' = div \cup (IF wf THEN {} ELSE {[trace |-> Ev.trace, step |-> Ev.seq, what |-> "not well-formed: skipped"]})
Finish == /\ l = Len(Trace) + 1
          /\ PrintT(<<"VF-RESULT", ToJson([consumed |-> l - 1, viol |-> viol, div |-> div])>>)
          /\ l' = l + 1 /\ UNCHANGED <<viol, div>>
TInit == l = 1 /\ viol = {} /\ div = {}
TNext == (l <= Len(Trace) /\ l' = l + 1 /\ Step) \/ Finish
TSpec == TInit /\ [][TNext]_tvars
=============================================================================
