------------------------------- MODULE ChfConc -------------------------------
(***************************************************************************)
(* Concurrent requests at the granularity of the verif hook points: a      *)
(* thread runs from one hook to the next; Release(t) lets a parked thread  *)
(* pass its hook and run its next code segment, Acquire(t) is the silent   *)
(* step of a thread blocked on a subscriber lock.                          *)
(*                                                                         *)
(*  create(u)  : [uepool.miss -> uepool.stored ->] create.locking ->       *)
(*               create.locked -> create.refread -> opencdr.seq ->         *)
(*               create.unlocking -> done                                  *)
(*  update/release(u,s) : x.locking -> x.locked -> x.unlocking -> done     *)
(*  recharge(u): [recharge.locking -> recharge.locked ->] recharge.write   *)
(*               [-> recharge.unlocking]; the consumer is notified AFTER   *)
(*               the lock was given back: while it handles the             *)
(*               notification, requests it sends for u are served          *)
(*                                                                         *)
(* State: the subscriber pool (supi -> object), subscriber objects with    *)
(* their lock, sessions and the set of applied request ids, the global     *)
(* record counter, and the access log used for the lockset discipline.     *)
(* DEV_* switch the as-is behaviour.                                       *)
(***************************************************************************)
EXTENDS Integers, Sequences, FiniteSets, TLC, Json

CONSTANTS Mix,                 \* sequence of requests [kind, u, s] run concurrently (thread i runs Mix[i])
          Existing,            \* sessions created before the concurrent phase: set of [u, s]
          DEV_FindThenStore,   \* TRUE: NewCHFUe does Load, then builds and Stores unconditionally
          DEV_RechargeUnlocked,\* TRUE: the recharge notification writes the rating type without the subscriber lock
          DEV_SeqReadUnlocked, \* TRUE: the record counter is read for the reference without the context lock
          EmitOneIn

T == 1..Len(Mix)
VARIABLES pool, objs, ctr, pc, loc, acked, applied, acc, nobj, sched
vars == <<pool, objs, ctr, pc, loc, acked, applied, acc, nobj, sched>>
\* pool  : supi -> object id (0 = none);  objs : object id -> [supi, lock, sessions]
\* pc[t] : [at |-> hook name | "start" | "block" | "done", then |-> hook to park at after acquiring]
\* loc[t]: [obj, seq]      acked : set of [t, u, ref, obj]     applied : set of [t, obj]
\* acc   : set of [v, obj, w, locked]  (shared-variable accesses)

Supis == {Mix[i].u : i \in T} \cup {e.u : e \in Existing}

InitObjs == LET us == {e.u : e \in Existing}
                num == CHOOSE f \in [us -> 1..Cardinality(us)] : \A a, b \in us : a # b => f[a] # f[b]
            IN [objs |-> [o \in {num[u] : u \in us} |->
                            LET u == CHOOSE x \in us : num[x] = o IN
                            [supi |-> u, lock |-> 0, sessions |-> {e.s : e \in {e \in Existing : e.u = u}}]],
                pool |-> [u \in Supis |-> IF u \in us THEN num[u] ELSE 0], n |-> Cardinality(us)]

Init == /\ pool = InitObjs.pool /\ objs = InitObjs.objs /\ nobj = InitObjs.n /\ ctr = Cardinality(Existing)
        /\ pc = [t \in T |-> [at |-> "start", then |-> ""]] /\ loc = [t \in T |-> [obj |-> 0, seq |-> -1]]
        /\ acked = {} /\ applied = {} /\ acc = {} /\ sched = <<>>

Req(t) == Mix[t]
LockHook(k) == k \o ".locked"
Free(o) == objs[o].lock = 0
\* thread t tries to take the lock of object o and to park at hook h: immediately or via the silent Acquire step
TryLock(t, o, h) ==
  IF Free(o) THEN /\ objs' = [objs EXCEPT ![o].lock = t] /\ pc' = [pc EXCEPT ![t] = [at |-> h, then |-> ""]]
             ELSE /\ objs' = objs /\ pc' = [pc EXCEPT ![t] = [at |-> "block", then |-> h]]

\* the first segment of every request: from the start to its first hook
\* ("start" is a gate of the harness itself: the request has not been issued yet)
Begin(t) ==
  /\ pc[t].at = "start"
  /\ sched' = Append(sched, [t |-> t, p |-> "start"])
  /\ LET r == Req(t) o == pool[r.u] IN
     CASE r.kind = "create" ->
            IF o = 0 THEN /\ pc' = [pc EXCEPT ![t] = [at |-> "uepool.miss", then |-> ""]]
                          /\ UNCHANGED <<objs, loc>>
            ELSE /\ loc' = [loc EXCEPT ![t].obj = o] /\ pc' = [pc EXCEPT ![t] = [at |-> "create.locking", then |-> ""]]
                 /\ UNCHANGED objs
       [] r.kind \in {"update", "release"} ->
            IF o = 0 THEN /\ pc' = [pc EXCEPT ![t] = [at |-> "done", then |-> ""]] /\ UNCHANGED <<objs, loc>>
            ELSE /\ loc' = [loc EXCEPT ![t].obj = o] /\ pc' = [pc EXCEPT ![t] = [at |-> r.kind \o ".locking", then |-> ""]]
                 /\ UNCHANGED objs
       [] r.kind = "recharge" ->
            IF o = 0 THEN /\ pc' = [pc EXCEPT ![t] = [at |-> "done", then |-> ""]] /\ UNCHANGED <<objs, loc>>
            ELSE IF DEV_RechargeUnlocked
                   THEN /\ loc' = [loc EXCEPT ![t].obj = o] /\ pc' = [pc EXCEPT ![t] = [at |-> "recharge.write", then |-> ""]]
                        /\ UNCHANGED objs
                   ELSE /\ loc' = [loc EXCEPT ![t].obj = o] /\ pc' = [pc EXCEPT ![t] = [at |-> "recharge.locking", then |-> ""]]
                        /\ UNCHANGED objs
  /\ UNCHANGED <<pool, ctr, acked, applied, acc, nobj>>

Acquire(t) ==
  /\ pc[t].at = "block" /\ Free(loc[t].obj)
  /\ objs' = [objs EXCEPT ![loc[t].obj].lock = t] /\ pc' = [pc EXCEPT ![t] = [at |-> pc[t].then, then |-> ""]]
  /\ UNCHANGED <<pool, ctr, loc, acked, applied, acc, nobj, sched>>

Ref(u, n) == u \o "-c-" \o ToString(n)
HoldsLock(t, o) == o # 0 /\ objs[o].lock = t

\* a parked thread passes its hook and runs its next segment
Release(t) ==
  LET h == pc[t].at r == Req(t) o == loc[t].obj IN
  /\ h \notin {"start", "block", "done"}
  /\ sched' = Append(sched, [t |-> t, p |-> h])
  /\ CASE h = "uepool.miss" ->
            \* build a context; as-is: store it unconditionally; fixed: LoadOrStore
            LET exists == pool[r.u] # 0
                newo == nobj + 1
                useExisting == exists /\ ~DEV_FindThenStore
            IN /\ nobj' = IF useExisting THEN nobj ELSE newo
               /\ objs' = IF useExisting THEN objs
                          ELSE [x \in DOMAIN objs \cup {newo} |-> IF x = newo THEN [supi |-> r.u, lock |-> 0, sessions |-> {}] ELSE objs[x]]
               /\ pool' = IF useExisting THEN pool ELSE [pool EXCEPT ![r.u] = newo]
               /\ loc' = [loc EXCEPT ![t].obj = IF useExisting THEN pool[r.u] ELSE newo]
               /\ pc' = [pc EXCEPT ![t] = [at |-> "uepool.stored", then |-> ""]]
               /\ acc' = acc \cup {[v |-> "pool", obj |-> 0, w |-> TRUE, locked |-> ~DEV_FindThenStore]}
               /\ UNCHANGED <<ctr, acked, applied>>
       [] h = "uepool.stored" ->
            /\ pc' = [pc EXCEPT ![t] = [at |-> "create.locking", then |-> ""]]
            /\ UNCHANGED <<pool, objs, ctr, loc, acked, applied, acc, nobj>>
       [] h \in {"create.locking", "update.locking", "release.locking", "recharge.locking"} ->
            /\ TryLock(t, o, LockHook(r.kind)) /\ UNCHANGED <<pool, ctr, loc, acked, applied, acc, nobj>>
       [] h = "create.locked" ->
            \* the counter is read for the reference (one critical section of the context lock) ...
            /\ loc' = [loc EXCEPT ![t].seq = ctr]
            /\ acc' = acc \cup {[v |-> "ctr", obj |-> 0, w |-> FALSE, locked |-> ~DEV_SeqReadUnlocked]}
            /\ pc' = [pc EXCEPT ![t] = [at |-> "create.refread", then |-> ""]]
            /\ UNCHANGED <<pool, objs, ctr, acked, applied, nobj>>
       [] h = "create.refread" ->
            \* ... and advanced by OpenCDR in another one: creates of OTHER subscribers may read the same value in between (their
            \* references differ in the subscriber part)
            /\ ctr' = ctr + 1
            /\ acc' = acc \cup {[v |-> "ctr", obj |-> 0, w |-> TRUE, locked |-> TRUE]}
            /\ pc' = [pc EXCEPT ![t] = [at |-> "opencdr.seq", then |-> ""]]
            /\ UNCHANGED <<pool, objs, loc, acked, applied, nobj>>
       [] h = "opencdr.seq" ->
            /\ objs' = [objs EXCEPT ![o].sessions = @ \cup {Ref(r.u, loc[t].seq)}]
            /\ acc' = acc \cup {[v |-> "cdr", obj |-> o, w |-> TRUE, locked |-> HoldsLock(t, o)]}
            /\ pc' = [pc EXCEPT ![t] = [at |-> "create.unlocking", then |-> ""]]
            /\ UNCHANGED <<pool, ctr, loc, acked, applied, nobj>>
       [] h = "create.unlocking" ->
            /\ objs' = [objs EXCEPT ![o].lock = 0]
            /\ acked' = acked \cup {[t |-> t, u |-> r.u, ref |-> Ref(r.u, loc[t].seq), obj |-> o]}
            /\ pc' = [pc EXCEPT ![t] = [at |-> "done", then |-> ""]]
            /\ UNCHANGED <<pool, ctr, loc, applied, acc, nobj>>
       [] h \in {"update.locked", "release.locked"} ->
            \* the whole body (credit control, record, file) runs under the subscriber lock
            /\ applied' = IF r.s \in objs[o].sessions THEN applied \cup {[t |-> t, obj |-> o]} ELSE applied
            /\ objs' = IF r.kind = "release" /\ r.s \in objs[o].sessions THEN [objs EXCEPT ![o].sessions = @ \ {r.s}] ELSE objs
            /\ acc' = acc \cup {[v |-> "rtype", obj |-> o, w |-> TRUE, locked |-> HoldsLock(t, o)],
                                [v |-> "cdr", obj |-> o, w |-> TRUE, locked |-> HoldsLock(t, o)]}
            /\ pc' = [pc EXCEPT ![t] = [at |-> r.kind \o ".unlocking", then |-> ""]]
            /\ UNCHANGED <<pool, ctr, loc, acked, nobj>>
       [] h \in {"update.unlocking", "release.unlocking", "recharge.unlocking"} ->
            /\ objs' = [objs EXCEPT ![o].lock = 0] /\ pc' = [pc EXCEPT ![t] = [at |-> "done", then |-> ""]]
            /\ UNCHANGED <<pool, ctr, loc, acked, applied, acc, nobj>>
       [] h = "recharge.locked" ->
            /\ pc' = [pc EXCEPT ![t] = [at |-> "recharge.write", then |-> ""]]
            /\ UNCHANGED <<pool, objs, ctr, loc, acked, applied, acc, nobj>>
       [] h = "recharge.write" ->
            /\ acc' = acc \cup {[v |-> "rtype", obj |-> o, w |-> TRUE, locked |-> HoldsLock(t, o)]}
            /\ applied' = applied \cup {[t |-> t, obj |-> o]}    \* the rating group is back in reserve mode, the consumer is notified
            /\ pc' = [pc EXCEPT ![t] = IF DEV_RechargeUnlocked THEN [at |-> "done", then |-> ""] ELSE [at |-> "recharge.unlocking", then |-> ""]]
            /\ UNCHANGED <<pool, objs, ctr, loc, acked, nobj>>

Next == \E t \in T : Begin(t) \/ Acquire(t) \/ Release(t)
Spec == Init /\ [][Next]_vars
View == <<pool, objs, ctr, pc, loc, acked, applied, acc, nobj>>
ViewAll == vars          \* every interleaving is a distinct behaviour (schedule enumeration)

-----------------------------------------------------------------------------
AllDone == \A t \in T : pc[t].at = "done"
\* every acknowledged session can still be addressed: it lives in the pooled object of its subscriber
AckedSessionUsable == AllDone => \A a \in acked : pool[a.u] = a.obj /\ a.ref \in objs[a.obj].sessions
RefsUnique == \A a, b \in acked : a.t # b.t => a.ref # b.ref
\* every update/release of an existing session was applied to the pooled object (exactly once by construction)
\* (unless another request of the mix released that session first)
EffectsNotLost == AllDone => \A t \in T : (Req(t).kind \in {"update", "release"} /\ [u |-> Req(t).u, s |-> Req(t).s] \in Existing)
                                           => \/ \E a \in applied : a.t = t /\ a.obj = pool[Req(t).u]
                                              \/ \E t2 \in T \ {t} : Req(t2).kind = "release" /\ Req(t2).u = Req(t).u /\ Req(t2).s = Req(t).s
\* every recharge of a subscriber that has sessions takes effect, whatever else is in flight (also another recharge)
RechargesNotLost == AllDone => \A t \in T : (Req(t).kind = "recharge" /\ \E e \in Existing : e.u = Req(t).u)
                                           => \E a \in applied : a.t = t /\ a.obj = pool[Req(t).u]
LocksetDiscipline == \A a \in acc : a.w => a.locked
ReadsLocked == \A a \in acc : a.locked
NoDeadlock == AllDone \/ \E t \in T : ENABLED (Begin(t) \/ Acquire(t) \/ Release(t))
Case == <<[mix |-> Mix, existing |-> Existing, schedule |-> sched]>>
Good == AckedSessionUsable /\ RefsUnique /\ EffectsNotLost /\ RechargesNotLost /\ LocksetDiscipline /\ ReadsLocked /\ NoDeadlock
InvC09 == Good \/ (PrintT(<<"VF-CEX", ToJson(Case)>>) /\ FALSE)
\* one behaviour per complete interleaving (emitted when the last thread finishes)
EmitBehaviour == IF AllDone' /\ ~AllDone /\ RandomElement(1..EmitOneIn) = 1
                   THEN PrintT(<<"VF-BEH", ToJson(<<[mix |-> Mix, existing |-> Existing, schedule |-> sched']>>)>>) ELSE TRUE
=============================================================================
