------------------------------ MODULE CdrFileMC ------------------------------
(* Bounded enumeration of well-formed CDR file structures (the quantifier of C14/C15) and, on the
   specification itself, the check that the independent reader inverts the layout:
   ParseFile(FileBytes(s)) = s.  The enumerated structures are then written by the real
   cdrFile.Encoding and read back by the real cdrFile.Decoding. *)
EXTENDS CdrFile, Json
CONSTANTS Rels,        \* release identifiers to combine (high x low), e.g. {0, 6, 7}
          FieldClasses,\* "zero" | "one" | "max"
          BlobLens,    \* lengths of routeing filter / private extension
          RecShapes,   \* set of sequences of <<rel, payloadLen>>
          EmitOneIn
VARIABLES s, done
vars == <<s, done>>

BE4(n) == << n \div 16777216, (n \div 65536) % 256, (n \div 256) % 256, n % 256 >>
Blob(n, k) == [i \in 1..n |-> (i * 11 + k) % 256]
Payload(n, k) == IF n <= 300 THEN [i \in 1..n |-> ((i - 1) * 7 + k * 13 + 3) % 256] ELSE << Tok(n, k) >>
\* mixed classes: every field of the base class except ONE header timestamp, which is of another class
\* ("one_zlast": all fields "one", last-append timestamp all zero; "zero_mopen": all zero, opening timestamp maximal ...)
Base(c) == CASE c \in {"one_zlast", "one_zopen"} -> "one" [] c \in {"max_zlast", "max_zopen"} -> "max"
             [] c \in {"zero_mlast", "zero_mopen"} -> "zero" [] OTHER -> c
OpenCls(c) == CASE c \in {"one_zopen", "max_zopen"} -> "zero" [] c = "zero_mopen" -> "max" [] OTHER -> Base(c)
LastCls(c) == CASE c \in {"one_zlast", "max_zlast"} -> "zero" [] c = "zero_mlast" -> "max" [] OTHER -> Base(c)
F(c, max) == LET cls == Base(c) IN CASE cls = "zero" -> 0 [] cls = "one" -> 1 [] OTHER -> max
Ts(cls, d) == [month |-> F(cls, 15), date |-> F(cls, 31), hour |-> F(cls, 31) , minute |-> F(cls, 63),
               sign |-> F(cls, 1), hourDev |-> F(cls, 31), minDev |-> IF cls = "max" THEN 63 - d ELSE F(cls, 63)]
Mk(hi, lo, mcls, fl, el, shape) ==
  LET cls == Base(mcls)
      cdrs == [i \in 1..Len(shape) |->
                 [rel |-> shape[i][1], ver |-> F(cls, 31), fmt |-> IF cls = "zero" THEN 1 ELSE F(cls, 7), ts |-> F(cls, 31),
                  relExt |-> IF shape[i][1] = 7 THEN (CASE cls = "zero" -> 0 [] cls = "max" -> 255 [] OTHER -> 10 + i) ELSE 0, payload |-> Payload(shape[i][2], i % 8)]]   \* (run tokens carry a pattern number 0..7)
      h0 == [fileLength |-> <<0, 0, 0, 0>>, headerLength |-> <<0, 0, 0, 0>>,
             hiRel |-> hi, hiVer |-> F(cls, 31), loRel |-> lo, loVer |-> IF cls = "max" THEN 30 ELSE F(cls, 31),
             openTs |-> Ts(OpenCls(mcls), 0), lastTs |-> Ts(LastCls(mcls), 1),
             nCdrs |-> BE4(Len(shape)),
             fileSeq |-> IF cls = "max" THEN <<255, 255, 255, 255>> ELSE BE4(F(cls, 1)),
             closure |-> F(cls, 255), ip |-> [i \in 1..20 |-> IF cls = "zero" THEN 0 ELSE (i * 3 + F(cls, 200)) % 256],
             lost |-> F(cls, 255), filter |-> Blob(fl, 1), ext |-> Blob(el, 2),
             hiExt |-> IF hi = 7 THEN (CASE cls = "zero" -> 0 [] cls = "max" -> 255 [] OTHER -> 201) ELSE 0,
             loExt |-> IF lo = 7 THEN (CASE cls = "zero" -> 0 [] cls = "max" -> 255 [] OTHER -> 202) ELSE 0]
      st0 == [hdr |-> h0, cdrs |-> cdrs]
  IN [hdr |-> [h0 EXCEPT !.headerLength = BE4(HdrSize(h0)), !.fileLength = BE4(FileSize(st0))], cdrs |-> cdrs]

Init == s = <<>> /\ done = FALSE
Pick == /\ ~done
        /\ \E hi \in Rels, lo \in Rels, cls \in FieldClasses, fl \in BlobLens, el \in BlobLens, shape \in RecShapes :
             s' = Mk(hi, lo, cls, fl, el, shape)
        /\ done' = TRUE
Next == Pick
Spec == Init /\ [][Next]_vars
View == vars
InvWellFormed == done => WellFormedStruct(s)
InvSpecRoundTrip == done => LET r == ParseFile(FileBytes(s)) IN r.ok /\ r.s = Canon(s)
EmitBehaviour == IF RandomElement(1..EmitOneIn) = 1 THEN PrintT(<<"VF-BEH", ToJson(<<s'>>)>>) ELSE TRUE
=============================================================================
