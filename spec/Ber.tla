--------------------------------- MODULE Ber ---------------------------------
(***************************************************************************)
(* X.690 definite-length BER, written from the Recommendation, plus the    *)
(* meaning of the codec's tag language (cdr/asn): an INDEPENDENT reference *)
(* encoder Enc and a well-formedness predicate on octet strings.           *)
(*                                                                         *)
(* A typed value is a tree of nodes (type information and value merged):   *)
(*   [k, p, ...]   k : "int" "enum" "bool" "null" "octets" "str" "bits"    *)
(*                     "oid" "wrap" "struct" "slice" "choice" "unsup"      *)
(*   p = [tag, optional, explicit, set, st, open]  the ber:"..." tag of    *)
(*       the field that holds the node (tag = -1: no tagNum)               *)
(*   absent : TRUE for a nil pointer / absent OPTIONAL member              *)
(*   leaves : v  (Big signed for int/enum; BOOLEAN; octet items)           *)
(*   bits   : v = octet items, bitlen                                      *)
(*   str    : kind in {"utf8","ia5","graphic","plain"}                     *)
(*   wrap   : kids = <<inner>>   (struct { Value T } / { List []T })       *)
(*   struct : kids = members in declaration order                          *)
(*   slice  : kids = elements                                              *)
(*   choice : present (1-based member index, 0 = none), kids = members     *)
(* Octet strings are sequences of items: an octet 0..255 or a run token    *)
(* -(n*8+k) standing for n content octets of pattern k.                    *)
(***************************************************************************)
EXTENDS Integers, Sequences, FiniteSets, TLC
INSTANCE Big

IsTok(x) == x < 0
Run(x) == (0 - x) \div 8
\* (deep TLA+ recursion is quadratic in TLC, so octet strings are never walked octet by octet:
\*  the recursion below is over the few run tokens only)
FirstTok(b, i) == LET S == {k \in i..Len(b) : IsTok(b[k])} IN IF S = {} THEN 0 ELSE CHOOSE k \in S : \A j \in S : k <= j
RECURSIVE OLenFrom(_, _)
OLenFrom(b, i) == LET t == FirstTok(b, i) IN
                  IF t = 0 THEN Len(b) - i + 1 ELSE (t - i) + Run(b[t]) + OLenFrom(b, t + 1)
OLen(b) == OLenFrom(b, 1)

RECURSIVE Octs(_, _)
Octs(n, k) == IF k = 0 THEN <<>> ELSE Octs(n \div 256, k - 1) \o << n % 256 >>

\* 8.1.2 identifier octets
RECURSIVE Base128(_)
Base128(n) == IF n < 128 THEN << n >> ELSE Base128(n \div 128) \o << n % 128 >>
HighTag(n) == LET d == Base128(n) IN [i \in 1..Len(d) |-> IF i < Len(d) THEN d[i] + 128 ELSE d[i]]
Ident(class, cons, tag) ==
  LET first == class * 64 + (IF cons THEN 32 ELSE 0) IN
  IF tag <= 30 THEN << first + tag >> ELSE << first + 31 >> \o HighTag(tag)
\* 8.1.3 length octets, definite form, minimal
LenOcts(l) == IF l <= 127 THEN << l >>
              ELSE LET k == IF l <= 255 THEN 1 ELSE IF l <= 65535 THEN 2 ELSE IF l <= 16777215 THEN 3 ELSE 4
                   IN << 128 + k >> \o Octs(l, k)
\* 8.19 OBJECT IDENTIFIER contents: the first two arcs as 40 * a1 + a2, every subidentifier in base 128 with bit 8 set on all
\* octets but its last.  (The codec under test does not support the type: these encodings are decoder INPUT only.)
SubId(n) == LET b == Base128(n) IN [i \in 1..Len(b) |-> IF i < Len(b) THEN b[i] + 128 ELSE b[i]]
RECURSIVE SubIds(_, _)
SubIds(arcs, i) == IF i > Len(arcs) THEN <<>> ELSE SubId(arcs[i]) \o SubIds(arcs, i + 1)
OidContent(arcs) == SubId(40 * arcs[1] + arcs[2]) \o SubIds(arcs, 3)
TLV(class, cons, tag, content) == Ident(class, cons, tag) \o LenOcts(OLen(content)) \o content

\* 8.3 INTEGER contents: minimal two's complement, of a Big signed value (up to 64 bits)
\* magnitude -> big-endian octets (at least one)
RECURSIVE MagOcts(_)
MagOcts(m) == IF m = <<>> THEN <<>> ELSE LET d == MDivMod(m, <<256>>) IN MagOcts(d.q) \o << IF d.r = <<>> THEN 0 ELSE d.r[1] >>
RECURSIVE P256(_)
P256(k) == IF k = 0 THEN <<1>> ELSE MMulSmall(P256(k - 1), 256)
IntContent(x) ==
  LET s == SNorm(x) IN
  IF ~s.neg THEN
    LET o == IF s.mag = <<>> THEN << 0 >> ELSE MagOcts(s.mag) IN
    IF o[1] >= 128 THEN << 0 >> \o o ELSE o
  ELSE
    \* smallest k with |x| <= 2^(8k-1); contents = 2^(8k) - |x|
    LET Fit(k) == MCmp(s.mag, MMulSmall(P256(k - 1), 128)) <= 0
        k == CHOOSE j \in 1..9 : Fit(j) /\ \A i \in 1..(j - 1) : ~Fit(i)
        o == MagOcts(MSub(P256(k), s.mag))
    IN [i \in 1..(k - Len(o)) |-> 0] \o o   \* (never needs padding: o has exactly k octets)

Unused(bl) == (8 - (bl % 8)) % 8       \* 8.6.2.2: number of unused bits in the final octet
UnivTag(kind) == CASE kind = "utf8" -> 12 [] kind = "ia5" -> 22 [] kind = "graphic" -> 25 [] OTHER -> 12   \* (a Go string of no declared kind is a UTF8String: universal tag 0 is reserved)

NoTag(p) == [p EXCEPT !.tag = -1]
ErrV == << -1000000 >>        \* "the encoder must report an error"
IsErr(b) == b = ErrV

\* universal (untagged) encoding: [cls, cons, tag, content] or error
RECURSIVE Body(_, _), Enc(_, _), Cat(_, _, _, _)
Cat(kids, p, i, mode) ==      \* concatenated member encodings
  IF i > Len(kids) THEN <<>>
  ELSE LET k == kids[i]
           e == IF k.absent THEN (IF mode = "struct" /\ k.p.optional THEN <<>> ELSE ErrV)
                ELSE Enc(k, IF mode = "slice" THEN p ELSE k.p)
           r == Cat(kids, p, i + 1, mode)
       IN IF IsErr(e) \/ IsErr(r) THEN ErrV ELSE e \o r
Body(n, p) ==
  CASE n.k = "int"    -> [ok |-> TRUE, cons |-> FALSE, tag |-> 2, c |-> IntContent(n.v)]
    [] n.k = "enum"   -> [ok |-> TRUE, cons |-> FALSE, tag |-> 10, c |-> IntContent(n.v)]
    [] n.k = "bool"   -> [ok |-> TRUE, cons |-> FALSE, tag |-> 1, c |-> << IF n.v THEN 255 ELSE 0 >>]
    [] n.k = "null"   -> [ok |-> TRUE, cons |-> FALSE, tag |-> 5, c |-> <<>>]
    [] n.k = "octets" -> [ok |-> TRUE, cons |-> FALSE, tag |-> 4, c |-> n.v]
    [] n.k = "str"    -> [ok |-> TRUE, cons |-> FALSE, tag |-> IF p.st # 0 THEN p.st ELSE UnivTag(n.kind), c |-> n.v]
    [] n.k = "bits"   -> [ok |-> TRUE, cons |-> FALSE, tag |-> 3, c |-> << Unused(n.bitlen) >> \o n.v]
    [] n.k = "struct" -> LET c == Cat(n.kids, p, 1, "struct") IN
                         [ok |-> ~IsErr(c), cons |-> TRUE, tag |-> IF p.set THEN 17 ELSE 16, c |-> c]
    [] n.k = "slice"  -> LET c == Cat(n.kids, NoTag(p), 1, "slice") IN
                         [ok |-> ~IsErr(c), cons |-> TRUE, tag |-> IF p.set THEN 17 ELSE 16, c |-> c]
    [] OTHER          -> [ok |-> FALSE, cons |-> FALSE, tag |-> 0, c |-> <<>>]   \* oid, open types, unsupported kinds
Enc(n, p) ==
  IF n.k = "wrap" THEN (IF n.kids[1].absent THEN ErrV ELSE Enc(n.kids[1], p))
  ELSE IF n.k = "choice" THEN
    (IF p.open \/ n.present = 0 \/ n.present > Len(n.kids) \/ n.kids[n.present].absent THEN ErrV
     ELSE LET alt == n.kids[n.present]
              e == Enc(alt, alt.p)
          IN IF IsErr(e) THEN ErrV
             ELSE IF p.tag >= 0 THEN TLV(2, TRUE, p.tag, e)      \* a tagged CHOICE is always tagged explicitly
             ELSE e)
  ELSE
    LET b == Body(n, p) IN
    IF ~b.ok THEN ErrV
    ELSE IF p.tag < 0 THEN TLV(0, b.cons, b.tag, b.c)
    ELSE IF p.explicit THEN TLV(2, TRUE, p.tag, TLV(0, b.cons, b.tag, b.c))
    ELSE TLV(2, b.cons, p.tag, b.c)

-----------------------------------------------------------------------------
(* Generic well-formedness of an octet string as ONE definite-length element (X.690 8.1):      *)
(* minimal identifier and length octets, nested elements tile their parent exactly, and the     *)
(* universal primitives that can be recognised are well-formed (INTEGER/ENUMERATED minimal,     *)
(* BOOLEAN one octet 00/FF, NULL empty, BIT STRING unused bits 0..7).                           *)
\* header at item i: [ok, cls, cons, tag, hl, len]
RECURSIVE TagFrom(_, _, _, _)
TagFrom(b, i, acc, first) ==
  IF i > Len(b) \/ IsTok(b[i]) THEN [ok |-> FALSE, tag |-> 0, next |-> i]
  ELSE IF first /\ b[i] = 128 THEN [ok |-> FALSE, tag |-> 0, next |-> i]          \* leading zero septet
  ELSE IF acc > 4000000 THEN [ok |-> FALSE, tag |-> 0, next |-> i]
  ELSE IF b[i] >= 128 THEN TagFrom(b, i + 1, acc * 128 + (b[i] - 128), FALSE)
  ELSE [ok |-> TRUE, tag |-> acc * 128 + b[i], next |-> i + 1]
HeaderS(b, i, strict) ==
  IF i > Len(b) \/ IsTok(b[i]) THEN [ok |-> FALSE]
  ELSE
  LET id == b[i]
      low == id % 32
      t == IF low < 31 THEN [ok |-> TRUE, tag |-> low, next |-> i + 1] ELSE TagFrom(b, i + 1, 0, strict)
  IN IF ~t.ok \/ (strict /\ low = 31 /\ t.tag < 31) \/ t.next > Len(b) \/ IsTok(b[t.next]) THEN [ok |-> FALSE]
     ELSE LET l0 == b[t.next] IN
          IF l0 < 128 THEN [ok |-> TRUE, cls |-> id \div 64, cons |-> (id \div 32) % 2 = 1, tag |-> t.tag, start |-> t.next + 1, len |-> l0]
          ELSE LET k == l0 - 128 IN
               IF k = 0 \/ k > 3 \/ t.next + k > Len(b) \/ \E j \in 1..k : IsTok(b[t.next + j]) THEN [ok |-> FALSE]
               ELSE LET v == IF k = 1 THEN b[t.next + 1] ELSE IF k = 2 THEN b[t.next + 1] * 256 + b[t.next + 2]
                                   ELSE (b[t.next + 1] * 256 + b[t.next + 2]) * 256 + b[t.next + 3]
                    IN IF strict /\ (b[t.next + 1] = 0 \/ v < 128) THEN [ok |-> FALSE]     \* not minimal
                       ELSE [ok |-> TRUE, cls |-> id \div 64, cons |-> (id \div 32) % 2 = 1, tag |-> t.tag, start |-> t.next + k + 1, len |-> v]
Header(b, i) == HeaderS(b, i, TRUE)
\* item index reached after consuming n octets from item i (or 0 if the items do not tile n octets)
RECURSIVE Skip(_, _, _)
Skip(b, i, n) ==
  IF n = 0 THEN i
  ELSE LET t == FirstTok(b, i) IN
       IF t = 0 \/ t - i >= n THEN (IF i + n - 1 <= Len(b) THEN i + n ELSE 0)     \* plain octets up to the target
       ELSE LET rest == n - (t - i) IN
            IF Run(b[t]) > rest THEN 0 ELSE Skip(b, t + 1, rest - Run(b[t]))
PrimOK(b, h, e) ==      \* recognisable universal primitives, content = items h.start .. e-1
  LET n == h.len c1 == IF n > 0 /\ ~IsTok(b[h.start]) THEN b[h.start] ELSE -1
      c2 == IF n > 1 /\ h.start + 1 < e /\ ~IsTok(b[h.start + 1]) THEN b[h.start + 1] ELSE -1 IN
  IF h.cls # 0 THEN TRUE
  ELSE CASE h.tag \in {2, 10} -> n >= 1 /\ (n = 1 \/ ~((c1 = 0 /\ c2 >= 0 /\ c2 < 128) \/ (c1 = 255 /\ c2 >= 128)))
         [] h.tag = 1 -> n = 1 /\ c1 \in {0, 255}
         [] h.tag = 5 -> n = 0
         [] h.tag = 3 -> n >= 1 /\ c1 \in 0..7 /\ (n = 1 => c1 = 0)
         [] h.tag = 0 -> FALSE                   \* universal 0 is reserved
         [] OTHER -> TRUE
RECURSIVE ElemEnd(_, _, _), Tiles(_, _, _, _)
\* item index just after the element starting at i, 0 if malformed (depth-bounded)
ElemEnd(b, i, d) ==
  IF d > 40 THEN 0 ELSE
  LET h == Header(b, i) IN
  IF ~h.ok THEN 0
  ELSE LET e == Skip(b, h.start, h.len) IN
       IF e = 0 THEN 0
       ELSE IF h.cons THEN (IF Tiles(b, h.start, e, d + 1) THEN e ELSE 0)
       ELSE IF PrimOK(b, h, e) THEN e ELSE 0
Tiles(b, i, e, d) == IF i = e THEN TRUE ELSE IF i > e THEN FALSE
                     ELSE LET n == ElemEnd(b, i, d) IN n # 0 /\ n <= e /\ Tiles(b, n, e, d)
WellFormedTLV(b) == Len(b) > 0 /\ ElemEnd(b, 1, 0) = Len(b) + 1

(* C16: input classes that a decoder must report as an error, whatever else it accepts.               *)
(*   ti = [k, tags] : kind of the target type and, for a CHOICE, the context tags of its members.    *)
\* the indefinite-length form (length octet 80) is outside what a definite-length decoder is asked to judge
Indefinite(b) ==
  Len(b) >= 2 /\ ~IsTok(b[1]) /\
  LET t == IF b[1] % 32 < 31 THEN [ok |-> TRUE, tag |-> 0, next |-> 2] ELSE TagFrom(b, 2, 0, FALSE)
  IN t.ok /\ t.next <= Len(b) /\ b[t.next] = 128
MustError(b, ti) ==
  \/ Len(b) = 0
  \/ ~Indefinite(b) /\ LET h == HeaderS(b, 1, FALSE) IN
     \/ ~h.ok                                            \* identifier/length octets truncated or unusable
     \/ (h.ok /\ Skip(b, h.start, h.len) = 0)            \* declared length runs past the end
     \/ (h.ok /\ h.len = 0 /\ ti.k \in {"int", "enum", "bool", "bits"})   \* zero-length primitive
     \/ (h.ok /\ ti.k = "choice" /\ ~(h.cls = 2 /\ h.tag \in {ti.tags[j] : j \in 1..Len(ti.tags)}))
=============================================================================
