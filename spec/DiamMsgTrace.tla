---------------------------- MODULE DiamMsgTrace ----------------------------
EXTENDS DiamTables
CONSTANT TraceFile
VARIABLES l, viol, div
tvars == <<l, viol, div>>
Trace == ndJsonDeserialize(TraceFile)
Ev == Trace[l]
V(c, sit) == [prop |-> "C17", clause |-> c, trace |-> Ev.trace, step |-> Ev.seq, sit |-> sit]
ToSet(s) == {s[i] : i \in 1..Len(s)}
Step ==
  \/ /\ Ev.action = "tables"
     /\ LET tags == ToSet(Ev.tags) avps == ToSet(Ev.dictavps) IN
        viol' = viol
          \cup {V("tags_resolve", [struct |-> t.struct, field |-> t.field, avp |-> t.avp]) : t \in Unresolved(tags)}
          \cup {V("types_compatible", [struct |-> t.struct, field |-> t.field, avp |-> t.avp, go |-> t.gotype, dict |-> t.dicttype]) : t \in Mismatched(tags)}
          \cup {V("codes_unique", [names |-> p]) : p \in CodeClashes(tags)}
          \cup {V("names_consistent", [name |-> p[1]]) : p \in NameConflicts(avps)}
          \cup (IF Ev.loaderr THEN {V("dictionaries_load", [x |-> 0])} ELSE {})
     /\ div' = div
  \/ /\ Ev.action = "wire"
     /\ LET sent == Ev.sent recv == Ev.result.recv
            lost == {p \in DOMAIN sent : p \notin DOMAIN recv}
            extra == {p \in DOMAIN recv : p \notin DOMAIN sent}
            changed == {p \in DOMAIN sent \cap DOMAIN recv : sent[p] # recv[p]}
            sit(p, what) == [msg |-> Ev.msg, cls |-> Ev.cls, path |-> p, what |-> what]
        IN viol' = viol
             \cup (IF Ev.result.err # "" THEN {V("wire_error", [msg |-> Ev.msg, cls |-> Ev.cls, err |-> Ev.result.err])} ELSE {})
             \cup {V("field_intact", sit(p, "lost")) : p \in IF Ev.result.err = "" THEN lost ELSE {}}
             \cup {V("field_intact", sit(p, "extra")) : p \in extra}
             \cup {V("field_intact", sit(p, "changed")) : p \in changed}
     /\ div' = div
Finish == /\ l = Len(Trace) + 1
          /\ PrintT(<<"VF-RESULT", ToJson([consumed |-> l - 1, viol |-> viol, div |-> div])>>)
          /\ l' = l + 1 /\ UNCHANGED <<viol, div>>
TInit == l = 1 /\ viol = {} /\ div = {}
TNext == (l <= Len(Trace) /\ l' = l + 1 /\ Step) \/ Finish
TSpec == TInit /\ [][TNext]_tvars
=============================================================================
