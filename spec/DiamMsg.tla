------------------------------- MODULE DiamMsg -------------------------------
(***************************************************************************)
(* C17.  (1) The Diameter wire between the CHF, the rating server and the   *)
(* account server is the identity on messages: what Receive delivers is    *)
(* what Send was given.  A message is abstracted to its leaf map           *)
(* path -> value (Big for numbers, [n,sum,head] for strings).  The model    *)
(* enumerates the vectors (message x value class x presence mask x string  *)
(* class) that are sent through the real Marshal/Serialize/ReadMessage/    *)
(* Unmarshal.  (2) Consistency predicates over the tables extracted from    *)
(* the code: struct tags vs. loaded dictionaries.                          *)
(***************************************************************************)
EXTENDS Integers, Sequences, FiniteSets, TLC, Json

CONSTANTS Msgs, Classes, StrClasses, MaxPtr,
          MaxNum,   \* numeric leaves of different classes in one message: "hole" = the h-th numeric leaf is zero while the others
                    \* are of the vector's class; "solo" = only the h-th numeric leaf is of that class (h \in 0..MaxNum)
          EmitOneIn
VARIABLES vec, chan, got
vars == <<vec, chan, got>>

Vectors == {[msg |-> m, cls |-> c, present |-> p, k |-> k, strs |-> s, hm |-> "", h |-> 0] :
              m \in Msgs, c \in Classes, p \in {"all", "none", "only", "except"}, k \in 0..MaxPtr, s \in StrClasses}
           \cup {[msg |-> m, cls |-> c, present |-> "all", k |-> 0, strs |-> "short", hm |-> hm, h |-> h] :
              m \in Msgs, c \in Classes \cap {"one", "max"}, hm \in {"hole", "solo"}, h \in 0..MaxNum}
Canon(v) == (v.present \in {"all", "none"} => v.k = 0) /\ (v.cls = "zero" => (v.present = "all" /\ v.strs = "short"))

Init == vec \in {v \in Vectors : Canon(v)} /\ chan = <<>> /\ got = <<>>
Send == chan = <<>> /\ got = <<>> /\ chan' = <<vec>> /\ UNCHANGED <<vec, got>>
Recv == chan # <<>> /\ got' = chan /\ chan' = <<>> /\ UNCHANGED vec
Next == Send \/ Recv
Spec == Init /\ [][Next]_vars
View == vars
WireIsIdentity == got # <<>> => got[1] = vec
EmitBehaviour == IF got' # <<>> /\ RandomElement(1..EmitOneIn) = 1 THEN PrintT(<<"VF-BEH", ToJson(<<vec>>)>>) ELSE TRUE

=============================================================================
