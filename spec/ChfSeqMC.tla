------------------------------ MODULE ChfSeqMC ------------------------------
(***************************************************************************)
(* Bounded exploration of ChfSeq: TLC visits every reachable state of the  *)
(* bounded model, checks the property formulas in each, and (with the      *)
(* action constraint EmitBehaviour) prints one behaviour per transition of *)
(* the reduced graph; those behaviours are replayed into the real code.    *)
(***************************************************************************)
EXTENDS ChfSeq, Json, TLCExt

CONSTANTS
  Subs,        \* subscriber tokens, e.g. {"1","2"}   (SUPI = "imsi-" \o token)
  RGs,         \* rating groups as strings
  Consumers,   \* consumer names
  AcctChoices, \* set of <<quota, cost>> an account may start with
  Reqs, Vols,  \* requested / used volumes
  Modes,       \* container modes used in updates: subset of {"on","off"}
  TrigSets,    \* subset of {"none","final","partial"}
  TopUps,      \* top-up amounts (empty set: no top-up)
  MaxSteps, MaxSess,
  Limit,       \* abstract record size limit (record size = 1 + pad + #containers)
  Pads,        \* pad values for create
  CreateConts, \* numbers of (offline) containers a create may carry
  TwoEntries,  \* TRUE: updates may carry two usage entries (distinct rating groups)
  BadRefs,     \* TRUE: updates/releases may name unknown / foreign references and unknown subscribers
  WellBehaved, \* TRUE: used <= last grant (C06 consumer)
  AskAfterFinal, \* TRUE: a consumer may ask for units in a FINAL report or after a final-unit indication
  KnownDebitNoFui, \* TRUE: recorded finding -- the debit branch answers 0 units without final-unit indication

  Lrsn0,
  Recharges,   \* TRUE: recharge notifications
  ContShapes,  \* containers per usage entry: subset of {"single", "on_on", "on_off"} (two containers: both online, or an
               \* online followed by an offline one, in the same rating group)
  ChidModes,   \* charging ids: 0 = every session its own; n > 0 = every session uses n (consumers number their own ids)
  UpdNfcs,     \* set of BOOLEAN: do updates / releases repeat the consumer identification of the create
  AddrKinds,   \* address members of the consumer identification in a create: subset of {"none","v4","v6","fqdn","all"}
  SinkAnswers, \* statuses the consumer's notification endpoint may answer a re-authorisation notification with
  BadCreates,  \* kinds of malformed creates (rejected, without effect): subset of {"nonfci", "pdu_noslice", "pdu_noinfo", "badplmn"}
  Faults,      \* faults an update may be served under: subset of {"none", "abmf"} ("abmf": the account server is unreachable)
  Events,      \* TRUE: the model's subscribers also send one-time events (event based charging next to their sessions)
  EvTypes,     \* values of oneTimeEventType a create may carry ("" = absent); legal with and without oneTimeEvent
  PlmnKinds,   \* PLMNs a consumer may name in a create: "mcc/mnc" strings, "" = none
  BulkEvents,  \* numbers of usage containers a one-time event may carry in bulk (more than one record holds)
  OpCfgs,      \* operator configurations the CHF may run under (records [vl, vlp, qvt, th]; constant within a behaviour)
  Traffic,     \* numbers of unrelated one-time creates (they advance the global record counter)
  EmitOneIn    \* behaviour emission: print one transition in EmitOneIn (seeded by -seed)

VARIABLES st, h, hist, nid, labels, flags
vars == <<st, h, hist, nid, labels, flags>>

Keys == {Key(u, g) : u \in Subs, g \in RGs}
KeyU(k) == CHOOSE u \in Subs : \E g \in RGs : k = Key(u, g)
KeyG(k) == CHOOSE g \in RGs : \E u \in Subs : k = Key(u, g)
Supi(u) == "imsi-" \o u

\* ("rare": one of the trigger types an SMF reports less often -- a change of location, access, QoS ...; for the CHF a trigger
\* other than FINAL like any other: the record is closed as a partial record)
TrigSeq(t) == CASE t = "none" -> <<>> [] t = "final" -> <<"final">> [] t = "partial" -> <<"volume">> [] t = "rare" -> <<"rare">>
                [] t = "final_then_partial" -> <<"final", "volume">> [] OTHER -> <<>>

Entries ==
  (IF "single" \in ContShapes THEN {[rg |-> g, req |-> r, conts |-> << [m |-> m, vol |-> v] >>] :
                                     g \in RGs, r \in Reqs \cup {-1}, m \in Modes, v \in Vols} ELSE {})
  \cup (IF "on_on" \in ContShapes THEN {[rg |-> g, req |-> r, conts |-> << [m |-> "on", vol |-> v], [m |-> "on", vol |-> w] >>] :
                                     g \in RGs, r \in Reqs \cup {-1}, v \in Vols, w \in Vols} ELSE {})
  \cup (IF "on_off" \in ContShapes THEN {[rg |-> g, req |-> r, conts |-> << [m |-> "on", vol |-> v], [m |-> "off", vol |-> w] >>] :
                                     g \in RGs, r \in Reqs \cup {-1}, v \in Vols, w \in Vols \ {0}} ELSE {})
UsageTemplates ==
  {<<>>} \cup {<<e>> : e \in Entries}
  \cup (IF TwoEntries THEN {<<p[1], p[2]>> : p \in {q \in Entries \X Entries : q[1].rg # q[2].rg}} ELSE {})
CreateTemplates ==
  {IF n = 0 THEN <<>> ELSE << [rg |-> CHOOSE g \in RGs : TRUE, req |-> -1,
                               conts |-> [i \in 1..n |-> [m |-> "off", vol |-> i]]] >> : n \in CreateConts}

\* give every container of a template a fresh identity
RECURSIVE Stamp(_, _, _)
Stamp(tpl, i, base) ==
  IF i > Len(tpl) THEN <<>>
  ELSE << [tpl[i] EXCEPT !.conts = [j \in 1..Len(tpl[i].conts) |->
                                      [m |-> tpl[i].conts[j].m, vol |-> tpl[i].conts[j].vol, id |-> base + j]]] >>
       \o Stamp(tpl, i + 1, base + Len(tpl[i].conts))
RECURSIVE CountC(_, _)
CountC(tpl, i) == IF i > Len(tpl) THEN 0 ELSE Len(tpl[i].conts) + CountC(tpl, i + 1)

Size(rec) == 1 + rec.pad + Len(rec.conts)

Init ==
  /\ \E f \in [Keys -> AcctChoices], oc \in OpCfgs :
       /\ st = [acct |-> [k \in Keys |-> [quota |-> f[k][1], cost |-> f[k][2]]], ue |-> EmptyFn, lrsn |-> Lrsn0, cfg |-> oc]
       /\ h = HInit([k \in Keys |-> [quota |-> f[k][1], cost |-> f[k][2]]])
       /\ hist = << [a |-> "setup", cfg |-> oc, lrsn0 |-> Lrsn0, wb |-> WellBehaved, ues |-> Subs \cup (IF Traffic = {} THEN {} ELSE {"9"}),
                     accts |-> {[u |-> KeyU(k), rg |-> KeyG(k), quota |-> f[k][1], cost |-> ToString(f[k][2])] : k \in Keys}] >>
  /\ nid = 0 /\ labels = EmptyFn /\ flags = {}

Steps == Len(hist) - 1

\* ---- clause evaluation on a step (same operators the trace judge uses) ----
RECURSIVE GAFlags(_, _, _, _, _, _)
GAFlags(pre, u, usage, mui, trig, i) ==
  IF i > Len(usage) THEN {}
  ELSE LET js == {j \in 1..Len(mui) : mui[j].rg = usage[i].rg}
           bad == \E j \in js : /\ usage[i].req >= 0 /\ HasOnline(usage[i])
                                /\ \/ ~GrantWithin(pre, h, u, usage[i], mui[j])
                                   \/ (~GrantFui(pre, h, u, usage[i], mui[j])
                                       /\ ~(KnownDebitNoFui /\ DebitMode(pre, u, usage[i].rg, trig)))
       IN (IF bad THEN {"C06.grant_affordable"} ELSE {}) \cup GAFlags(pre, u, usage, mui, trig, i + 1)

StateFlags(s2, h2) ==
     {"C01.conservation" : k \in {k \in Keys : ~ConservationAt(s2, h2, KeyU(k), KeyG(k))}}
  \cup (IF WellBehaved THEN {"C06.no_overdraft" : k \in {k \in Keys : ~NoOverdraftAt(s2, k)}} ELSE {})
  \cup {"C02.exactly_once" : r \in {r \in Dom(h2.sess) : ~ExactlyOnceAt(s2, h2, r)}}
  \cup {"C02.record_identity" : r \in {r \in Dom(h2.sess) : ~RecordIdentityAt(s2, h2, r)}}

\* ---- structural signature of a step (selection aid only: behaviours are sampled evenly over signature sequences) ----
Sgn(x) == IF x > 0 THEN 1 ELSE IF x < 0 THEN -1 ELSE 0
EntrySig(pre, post, u, us, mui, trig) ==
  IF ~HasOnline(us) THEN <<"off", Len(us.conts)>>
  ELSE LET k  == Key(u, us.rg)
           js == {j \in 1..Len(mui) : mui[j].rg = us.rg}
           g  == IF js = {} THEN "none"
                 ELSE LET m == mui[CHOOSE j \in js : TRUE] IN
                      (IF m.granted = 0 THEN "zero" ELSE IF m.granted >= us.req THEN "full" ELSE "part")
                      \o (IF m.fui THEN "F" ELSE "")
       IN <<IF DebitMode(pre, u, us.rg, trig) THEN "D" ELSE "R", us.req >= 0, OnlineVol(us) > 0,
            us.req >= 0 /\ Short(pre, h, u, us), g, Sgn(post.acct[k].quota - pre.acct[k].quota),
            Sgn(Reserved(post, u, us.rg) - Reserved(pre, u, us.rg))>>
NRecs(s, u) == IF u \in Dom(s.ue) THEN Len(s.ue[u].recs) ELSE 0
NSess(s, u) == IF u \in Dom(s.ue) THEN Cardinality(Dom(s.ue[u].cdr)) ELSE 0
StepSig(what, pre, post, u, usage, resp, trig) ==
  ToString(<<what, resp.status, trig, NRecs(post, u) - NRecs(pre, u), NSess(pre, u),
             [i \in 1..Len(usage) |-> EntrySig(pre, post, u, usage[i], IF "mui" \in DOMAIN resp THEN resp.mui ELSE <<>>, trig)]>>)

\* kind of session reference a request names, seen from the requesting subscriber
RefKind(t) ==
  IF t.s \notin Dom(labels) THEN (IF "c" \in DOMAIN t THEN t.s ELSE "noref")
  ELSE (IF labels[t.s].u = t.u THEN "own" ELSE "foreign") \o (IF labels[t.s].live THEN "-live" ELSE "-stale")
       \o (IF t.u \in Dom(st.ue) THEN "" ELSE "-unknownsub")

\* ---- steps ----
DoCreate ==
  /\ Cardinality(Dom(labels)) < MaxSess
  /\ \E u \in Subs, c \in Consumers, tpl \in CreateTemplates, pad \in Pads, addr \in AddrKinds, cm \in ChidModes, ett \in EvTypes, pl \in PlmnKinds :
       LET lab == "s" \o ToString(Cardinality(Dom(labels)) + 1)
           us  == Stamp(tpl, 1, nid)
           a   == [u |-> u, supi |-> Supi(u), sub |-> u, c |-> c, onetime |-> FALSE, usage |-> us,
                   chid |-> IF cm = 0 THEN Cardinality(Dom(labels)) + 1 ELSE cm, pad |-> pad, notify |-> "n/" \o u \o "/" \o lab, plmn |-> pl]
           r   == Create(st, a)
           h2  == HCreate(h, a, r.resp)
       IN /\ st' = r.st /\ h' = h2
          /\ flags' = StateFlags(r.st, h2)
                      \cup (IF ~RefFresh(h, r.resp.ref) THEN {"C10.ref_unique"} ELSE {})
          /\ labels' = Upd(labels, lab, [ref |-> r.resp.ref, u |-> u, live |-> TRUE])
          /\ nid' = nid + CountC(tpl, 1)
          /\ hist' = Append(hist, [a |-> "create", u |-> u, s |-> lab, c |-> c, usage |-> tpl,
                                   pad |-> pad, chid |-> a.chid, addr |-> addr, ett |-> ett, plmn |-> pl,
                                   sig |-> StepSig("create:" \o addr \o ":" \o c \o ":" \o ToString(cm) \o ":" \o ett \o ":" \o pl, st, r.st, u, us, r.resp, <<>>)])

\* a one-time event of one of the model's subscribers: answered at once, opens no session, its record joins the
\* subscriber's records
DoEvent ==
  /\ Events
  /\ \E u \in Subs, c \in Consumers, ett \in EvTypes, bulk \in BulkEvents \cup {0} :
       \* (the containers of an event are not followed individually: the replay expands `bulk`)
       LET a  == [u |-> u, supi |-> Supi(u), sub |-> u, c |-> c, onetime |-> TRUE, usage |-> <<>>, chid |-> 0, pad |-> 0,
                  notify |-> "n/" \o u \o "/e"]
           r  == Create(st, a)
           h2 == HCreate(h, a, r.resp)
       IN /\ st' = r.st /\ h' = h2
          /\ flags' = StateFlags(r.st, h2)
          /\ hist' = Append(hist, [a |-> "create", u |-> u, s |-> "e", c |-> c, usage |-> <<>>, pad |-> 0, chid |-> 0, addr |-> "none",
                                   onetime |-> TRUE, ett |-> ett, bulk |-> bulk,
                                   sig |-> StepSig("event:" \o c \o ":" \o ett \o ":" \o ToString(bulk), st, r.st, u, <<>>, r.resp, <<>>)])
          /\ UNCHANGED <<nid, labels>>

\* a create that is rejected for its content (it names its own notification URI): nothing changes
DoBadCreate ==
  \E u \in Subs, k \in BadCreates :
     /\ hist' = Append(hist, [a |-> "badcreate", u |-> u, s |-> "bad", kind |-> k,
                              sig |-> ToString(<<"badcreate", k, u \in Dom(st.ue), NSess(st, u)>>)])
     /\ UNCHANGED <<st, h, nid, labels, flags>>

Targets == {[s |-> l, u |-> labels[l].u, ref |-> labels[l].ref] : l \in {x \in Dom(labels) : labels[x].live \/ BadRefs}}
           \* ("future<k>": a well-formed reference of the subscriber and one of the consumers whose number the k-th next session
           \* will get -- never handed out so far; the request identifies the consumer)
           \cup (IF BadRefs THEN {[s |-> "future" \o ToString(k), u |-> u, c |-> c, ref |-> RefOf(Supi(u), c, st.lrsn + k)] :
                                     u \in Subs, c \in Consumers, k \in {0, 1}}
                            ELSE {})
           \cup (IF BadRefs THEN {[s |-> "none", u |-> u, ref |-> "no-such-ref"] : u \in Subs}
                                 \cup {[s |-> l, u |-> u, ref |-> labels[l].ref] : l \in Dom(labels), u \in Subs}
                            ELSE {})

RType(u, g) == IF u \in Dom(st.ue) /\ g \in Dom(st.ue[u].rg) THEN st.ue[u].rg[g].rtype ELSE "reserve"
LastGrant(u, g) == IF Key(u, g) \in Dom(h.lastGrant) THEN h.lastGrant[Key(u, g)] ELSE [g |-> 0, fui |-> FALSE]
\* which usage a (well-behaved) consumer may send in the current state
UsageOK(u, tpl, tg) ==
  \A i \in 1..Len(tpl) :
     LET e == tpl[i]
         debit == RType(u, e.rg) = "debit" \/ (HasOnline(e) /\ tg \in {"final", "final_then_partial"})
     IN
     /\ (~HasOnline(e) => e.req = -1)
     /\ (HasOnline(e) /\ e.req = -1 /\ DEV_NilRequestedUnitPanics => debit)  \* as-is: reserve mode needs a requested unit
     /\ (WellBehaved /\ HasOnline(e) =>
            /\ OnlineVol(e) <= LastGrant(u, e.rg).g      \* never uses more than it was granted
            /\ (debit /\ ~AskAfterFinal => e.req = -1)) \* told "final units": reports, does not ask again
     /\ (\A j \in 1..Len(tpl) : j # i => tpl[j].rg # e.rg)

DoUpdate ==
  \E t \in Targets, tpl \in UsageTemplates, tg \in TrigSets, nfc \in UpdNfcs, flt \in Faults :
    /\ UsageOK(t.u, tpl, tg)
    \* a fault is explored where the request reserves (a failed final settlement leaves reported usage unpaid: then "the money
    \* available" of C06 is no longer a function of what was credited and reported, and C01 assumes reachable servers)
    /\ (flt # "none" => /\ \E i \in 1..Len(tpl) : HasOnline(tpl[i])
                        /\ tg \notin {"final", "final_then_partial"}
                        /\ \A i \in 1..Len(tpl) : HasOnline(tpl[i]) => RType(t.u, tpl[i].rg) = "reserve")
    /\ LET us  == Stamp(tpl, 1, nid)
           pre == st
           sel == IF t.u \in Dom(st.ue) /\ (t.ref \in Dom(st.ue[t.u].cdr) \/ (DEV_LastRecordOverride /\ Len(st.ue[t.u].recs) > 1))
                    THEN (IF DEV_LastRecordOverride /\ Len(st.ue[t.u].recs) > 1
                            THEN st.ue[t.u].recs[Len(st.ue[t.u].recs)]
                            ELSE st.ue[t.u].recs[st.ue[t.u].cdr[t.ref]])
                    ELSE [pad |-> 0, conts |-> <<>>]
           a   == [u |-> t.u, ref |-> t.ref, usage |-> us, trig |-> TrigSeq(tg),
                   split |-> Size(sel) + CountC(tpl, 1) > Limit, fault |-> flt]
           r   == Update(st, a)
           h2  == HUpdate(h, a, r.resp)
       IN /\ st' = r.st /\ h' = h2
          /\ flags' = StateFlags(r.st, h2)
                      \cup (IF r.resp.status = 200 THEN GAFlags(pre, t.u, us, r.resp.mui, TrigSeq(tg), 1) ELSE {})
                      \cup (IF r.resp.status >= 400 /\ r.st # pre THEN {"C12.rejection_no_effect"} ELSE {})
          /\ nid' = nid + CountC(tpl, 1)
          /\ hist' = Append(hist, [a |-> "update", u |-> t.u, s |-> t.s, c |-> IF "c" \in DOMAIN t THEN t.c ELSE "", usage |-> tpl, trig |-> TrigSeq(tg), nfc |-> nfc, fault |-> flt,
                                   sig |-> StepSig("update:" \o RefKind(t) \o (IF nfc THEN ":nfc" ELSE "") \o ":" \o flt, pre, r.st, t.u, us, r.resp, TrigSeq(tg))])
          /\ UNCHANGED labels

DoRelease ==
  \E t \in Targets, tpl \in UsageTemplates, tg \in TrigSets, nfc \in UpdNfcs :
    /\ UsageOK(t.u, tpl, tg)
    /\ LET us  == Stamp(tpl, 1, nid)
           pre == st
           sel == IF t.u \in Dom(st.ue) /\ t.ref \in Dom(st.ue[t.u].cdr)
                    THEN st.ue[t.u].recs[st.ue[t.u].cdr[t.ref]] ELSE [pad |-> 0, conts |-> <<>>]
           a   == [u |-> t.u, ref |-> t.ref, usage |-> us, trig |-> TrigSeq(tg),
                   split |-> Size(sel) + CountC(tpl, 1) > Limit]
           r   == Release(st, a)
           ok  == IF DEV_Release400 THEN 400 ELSE 204
           h2  == IF r.st = pre /\ r.resp.status = 400 /\ ~(t.u \in Dom(st.ue) /\ t.ref \in Dom(st.ue[t.u].cdr))
                    THEN h ELSE HRelease(h, a, r.resp, ok)
       IN /\ st' = r.st /\ h' = h2
          /\ flags' = StateFlags(r.st, h2)
                      \cup (IF r.resp.status >= 400 /\ r.st # pre /\ ~(t.u \in Dom(pre.ue) /\ t.ref \in Dom(pre.ue[t.u].cdr))
                              THEN {"C12.rejection_no_effect"} ELSE {})
          /\ nid' = nid + CountC(tpl, 1)
          /\ hist' = Append(hist, [a |-> "release", u |-> t.u, s |-> t.s, c |-> IF "c" \in DOMAIN t THEN t.c ELSE "", usage |-> tpl, trig |-> TrigSeq(tg), nfc |-> nfc,
                                   sig |-> StepSig("release:" \o RefKind(t) \o (IF nfc THEN ":nfc" ELSE ""), pre, r.st, t.u, us, r.resp, TrigSeq(tg))])
          /\ labels' = IF r.resp.status = ok /\ t.s \in Dom(labels) /\ labels[t.s].u = t.u
                          THEN [labels EXCEPT ![t.s].live = FALSE] ELSE labels

DoRecharge ==
  /\ Recharges
  /\ \E u \in Subs, g \in RGs, ans \in SinkAnswers :
       LET r == Recharge(st, [u |-> u, rg |-> g]) IN
       /\ st' = r.st /\ flags' = StateFlags(r.st, h)
       /\ hist' = Append(hist, [a |-> "recharge", u |-> u, rg |-> g, ans |-> ans])
       /\ UNCHANGED <<h, nid, labels>>

\* unrelated traffic: k one-time events of subscriber "9" (each takes a record sequence number)
RECURSIVE CreateN(_, _)
CreateN(s, k) ==
  IF k = 0 THEN s
  ELSE CreateN(Create(s, [u |-> "9", supi |-> Supi("9"), sub |-> "9", c |-> "t", onetime |-> TRUE, usage |-> <<>>,
                          chid |-> 0, pad |-> 0, notify |-> "n/9/t"]).st, k - 1)
DoTraffic ==
  \E k \in Traffic :
     /\ st' = CreateN(st, k) /\ flags' = StateFlags(CreateN(st, k), h)
     /\ hist' = Append(hist, [a |-> "traffic", u |-> "9", n |-> k])
     /\ UNCHANGED <<h, nid, labels>>

DoTopUp ==
  \E u \in Subs, g \in RGs, amt \in TopUps :
       LET a == [u |-> u, rg |-> g, amt |-> amt]
           r == TopUp(st, a)
           h2 == HTopUp(h, a)
       IN /\ st' = r.st /\ h' = h2 /\ flags' = StateFlags(r.st, h2)
          /\ hist' = Append(hist, [a |-> "topup", u |-> u, rg |-> g, amt |-> amt])
          /\ UNCHANGED <<nid, labels>>

Next == /\ Steps < MaxSteps
        /\ (DoCreate \/ DoEvent \/ DoBadCreate \/ DoUpdate \/ DoRelease \/ DoRecharge \/ DoTopUp \/ DoTraffic)

Spec == Init /\ [][Next]_vars

\* history of actions and fresh-id counter are not behaviour: hide them from the fingerprint
View == <<st, h, labels, flags, Steps>>

EmitBehaviour == IF RandomElement(1..EmitOneIn) = 1 THEN PrintT(<<"VF-BEH", ToJson(hist')>>) ELSE TRUE

\* the labelled state graph for the runner: one line per transition with 64-bit identifiers of the source and target
\* (fingerprints of the VIEW), the step taken (with its signature) and, for initial states, the set-up record
Fp(v) == <<TLCFP(v), TLCFP(<<v, 1>>)>>
EmitEdge == PrintT(<<"VF-EDGE", ToJson([s |-> Fp(View), d |-> Fp(View'), step |-> hist'[Len(hist')],
                                        setup |-> IF Steps = 0 THEN hist[1] ELSE [a |-> "-"]])>>)

\* ---- refinement: per account key, every step of this model is a step of the abstract accounting machine AcctInd
\* (whose Conservation Apalache proves inductive for unbounded integers), or leaves the account untouched
Abs(k) == INSTANCE AcctInd WITH cost <- st.acct[k].cost, acct <- st.acct[k].quota,
                                res <- Reserved(st, KeyU(k), KeyG(k)), credited <- h.credited[k], used <- h.used[k],
                                mode <- RType(KeyU(k), KeyG(k)), UMax <- 8, QMax <- 8, AMax <- 8
RefinesAcct == [][\A k \in Keys : Abs(k)!Next \/ UNCHANGED Abs(k)!vars]_vars

\* ---- invariants (one per property clause) ----
\* a violated invariant prints the offending behaviour as JSON so that it can be replayed into the code
Holds(tag) == tag \notin flags \/ (PrintT(<<"VF-CEX", ToJson(hist)>>) /\ FALSE)
InvConservation   == Holds("C01.conservation")
InvNoOverdraft    == Holds("C06.no_overdraft")
InvGrantAffordable == Holds("C06.grant_affordable")
InvExactlyOnce    == Holds("C02.exactly_once")
InvRecordIdentity == Holds("C02.record_identity")
InvRefUnique      == Holds("C10.ref_unique")
InvRejectionNoEffect == Holds("C12.rejection_no_effect")
InvRecordWithinLimit ==
  (\A u \in Dom(st.ue) : \A i \in 1..Len(st.ue[u].recs) : Size(st.ue[u].recs[i]) <= Limit)
  \/ (PrintT(<<"VF-CEX", ToJson(hist)>>) /\ FALSE)
=============================================================================
