------------------------------ MODULE CgfTrace ------------------------------
(* Judge of the CDR-transfer traces (harness mode cgf): after every step the local file /tmp/<supi>.cdr and the
   gateway's copy (length + digest).  Observer: the charging operation is answered 2xx whatever the gateway does; an
   update made while the gateway is reachable leaves the gateway with the file just written; the gateway's copy is
   always some file the CHF wrote (here: equal to the local file or unchanged by the step).  Refinement: freshness after
   each step as Cgf.tla predicts it (release not transferred, create re-sends the existing file). *)
EXTENDS Integers, Sequences, FiniteSets, TLC, Json
CONSTANTS TraceFile, DEV_ReleaseNotTransferred
VARIABLES l, prev, viol, div
tvars == <<l, prev, viol, div>>
Trace == ndJsonDeserialize(TraceFile)
Ev == Trace[l]
V(c, sit) == [prop |-> "CGF", clause |-> c, trace |-> Ev.trace, step |-> Ev.seq, sit |-> sit]
D(w) == [trace |-> Ev.trace, step |-> Ev.seq, action |-> Ev.action, what |-> w]
FreshObs(f) == f.local.exists /\ f.remote.exists /\ f.remote.sum = f.local.sum /\ f.remote.len = f.local.len
Reset == Ev.action = "reset" /\ prev' = <<>> /\ UNCHANGED <<viol, div>>
Step ==
  /\ Ev.action # "reset"
  /\ LET f == IF Ev.u = "" THEN <<>> ELSE Ev.files[Ev.u]
         op == Ev.action \in {"create", "update", "release"}
         before == IF prev = <<>> \/ Ev.u = "" THEN <<>> ELSE prev[Ev.u]
         expFresh == CASE Ev.action = "update" -> Ev.up
                       [] Ev.action = "create" -> (Ev.up /\ f.local.exists) \/ (before # <<>> /\ FreshObs(before))
                       [] Ev.action = "release" -> IF DEV_ReleaseNotTransferred THEN FALSE ELSE Ev.up
                       [] OTHER -> FALSE
     IN /\ viol' = viol
             \cup (IF op /\ ~(Ev.status \in {200, 201, 204}) THEN {V("operation_independent_of_gateway", [a |-> Ev.action, up |-> Ev.up, status |-> Ev.status])} ELSE {})
             \cup (IF Ev.action = "update" /\ Ev.up /\ Ev.status = 200 /\ ~FreshObs(f) THEN {V("sent_when_reachable", [a |-> Ev.action])} ELSE {})
             \cup (IF op /\ before # <<>> /\ ~FreshObs(f) /\ f.remote # before.remote THEN {V("copy_is_a_written_file", [a |-> Ev.action])} ELSE {})
        /\ div' = div \cup (IF op /\ FreshObs(f) # expFresh THEN {D([fresh |-> FreshObs(f), expected |-> expFresh, up |-> Ev.up])} ELSE {})
        /\ prev' = Ev.files
Finish == /\ l = Len(Trace) + 1
          /\ PrintT(<<"VF-RESULT", ToJson([consumed |-> l - 1, viol |-> viol, div |-> div])>>)
          /\ l' = l + 1 /\ UNCHANGED <<prev, viol, div>>
TInit == l = 1 /\ prev = <<>> /\ viol = {} /\ div = {}
TNext == (l <= Len(Trace) /\ l' = l + 1 /\ (Reset \/ Step)) \/ Finish
TSpec == TInit /\ [][TNext]_tvars
=============================================================================
