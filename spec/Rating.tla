------------------------------- MODULE Rating -------------------------------
(***************************************************************************)
(* pkg/rf handleSUR + buildTaffif (the rating server) and the CHF-side     *)
(* decoding of the tariff (getUnitCost).  The server is stateless: one     *)
(* request = one step HandleSUR(coststr, req) -> answer.                   *)
(*   coststr : stored unit-cost text as a sequence of 1-character strings  *)
(*   req     : [sub, consumed, quota]   (Big magnitudes)                   *)
(*   answer  : [got, price, allowed, cost]   (cost: what the CHF decodes)  *)
(* Exact modelling is claimed for plain non-negative integer texts; other  *)
(* texts (fractions, signs, garbage) are modelled as "unmodelled" except   *)
(* where buildTaffif maps them to 0.                                       *)
(***************************************************************************)
EXTENDS Integers, Sequences, TLC
INSTANCE Big

CONSTANT DEV_ZeroCostDivides   \* TRUE: a unit cost of 0 panics the handler in reserve mode (no answer)

Digits == {"0", "1", "2", "3", "4", "5", "6", "7", "8", "9"}
DigitVal(c) == CASE c = "0" -> 0 [] c = "1" -> 1 [] c = "2" -> 2 [] c = "3" -> 3 [] c = "4" -> 4
                 [] c = "5" -> 5 [] c = "6" -> 6 [] c = "7" -> 7 [] c = "8" -> 8 [] c = "9" -> 9
AllDigits(cs) == Len(cs) > 0 /\ \A i \in 1..Len(cs) : cs[i] \in Digits
RECURSIVE DecMag(_, _, _)
DecMag(cs, i, acc) == IF i > Len(cs) THEN acc ELSE DecMag(cs, i + 1, MAdd(MMulSmall(acc, 10), MOfNat(DigitVal(cs[i]))))
HasDot(cs) == \E i \in 1..Len(cs) : cs[i] = "."
\* strconv.Atoi accepts an optional sign followed by digits only
AtoiBody(cs) == IF Len(cs) > 0 /\ cs[1] \in {"+", "-"} THEN Tail(cs) ELSE cs
AtoiOK(cs) == AllDigits(AtoiBody(cs))

\* classes of stored text:  "int" (value v, exact model), "zero" (buildTaffif yields 0), "other"
Class(cs) ==
  IF HasDot(cs) THEN "other"
  ELSE IF ~AtoiOK(cs) THEN "zero"                      \* Atoi error leaves ValueDigits = 0
  ELSE IF Len(cs) > 0 /\ cs[1] = "-" /\ DecMag(AtoiBody(cs), 1, <<>>) # <<>> THEN "other"
  ELSE IF DecMag(AtoiBody(cs), 1, <<>>) = <<>> THEN "zero"
  ELSE "int"
CostOf(cs) == DecMag(AtoiBody(cs), 1, <<>>)

P32 == <<0, 0, 4>>     \* 2^32
Fits32(m) == MCmp(m, P32) < 0

NoAnswer == [got |-> FALSE, price |-> <<>>, allowed |-> <<>>]
HandleSUR(cs, r) ==
  LET cl == Class(cs) c == CostOf(cs) IN
  IF cl = "zero" THEN
       IF r.sub = "reserve" THEN (IF DEV_ZeroCostDivides THEN NoAnswer ELSE [got |-> TRUE, price |-> <<>>, allowed |-> <<>>])
       ELSE [got |-> TRUE, price |-> <<>>, allowed |-> <<>>]
  ELSE \* "int"
       \* Unsigned32 arithmetic in the handler: outside the domain "exact price fits" the product wraps
       CASE r.sub = "debit"   -> [got |-> TRUE, price |-> MNorm(MDivMod(MMul(r.consumed, c), P32).r), allowed |-> <<>>]
         [] r.sub = "reserve" -> [got |-> TRUE, price |-> MMul(MDiv(r.quota, c), c), allowed |-> MDiv(r.quota, c)]
         [] OTHER             -> [got |-> TRUE, price |-> <<>>, allowed |-> <<>>]

-----------------------------------------------------------------------------
(* Property clauses (C08) on one observed exchange.  obs = [got, price, allowed];            *)
(* srvcost = price the server charged for ONE consumed unit (probe), clicost = getUnitCost.  *)
Answered(obs) == obs.got
DebitPriceExact(cs, r, obs) ==
  (Class(cs) = "int" /\ r.sub = "debit" /\ obs.got /\ Fits32(MMul(r.consumed, CostOf(cs)))) =>
     obs.price = MMul(r.consumed, CostOf(cs))
ReserveAllowedFloor(cs, r, obs) ==
  (Class(cs) = "int" /\ r.sub = "reserve" /\ obs.got) =>
     (obs.allowed = MDiv(r.quota, CostOf(cs)) /\ obs.price = MMul(obs.allowed, CostOf(cs)) /\ MCmp(obs.price, r.quota) <= 0)
ClientAgrees(srv, cli) == (srv.got /\ cli.got) => srv.cost = cli.cost
ClientCostIsStored(cs, cli) == (Class(cs) = "int" /\ Fits32(CostOf(cs)) /\ cli.got) => cli.cost = CostOf(cs)
=============================================================================
