--------------------------------- MODULE Big ---------------------------------
(***************************************************************************)
(* Arbitrary-precision integers for TLC (whose native integers are 32-bit  *)
(* and whose Json module silently wraps numbers >= 2^31).                  *)
(*   magnitude : sequence of limbs, little endian, base 2^15, no leading   *)
(*               (i.e. trailing) zero limb; <<>> is 0                      *)
(*   signed    : [neg |-> BOOLEAN, mag |-> magnitude], zero has neg=FALSE  *)
(* The harness writes every value that may reach 2^31 in this form.        *)
(***************************************************************************)
LOCAL INSTANCE Integers
LOCAL INSTANCE Sequences

B == 32768

RECURSIVE MNorm(_)
MNorm(a) == IF Len(a) > 0 /\ a[Len(a)] = 0 THEN MNorm(SubSeq(a, 1, Len(a) - 1)) ELSE a

RECURSIVE MOfNat(_)
MOfNat(n) == IF n = 0 THEN <<>> ELSE <<n % B>> \o MOfNat(n \div B)

Limb(a, i) == IF i <= Len(a) THEN a[i] ELSE 0

\* -1, 0, 1
RECURSIVE MCmpFrom(_, _, _)
MCmpFrom(a, b, i) == IF i = 0 THEN 0
                     ELSE IF Limb(a, i) < Limb(b, i) THEN -1
                     ELSE IF Limb(a, i) > Limb(b, i) THEN 1
                     ELSE MCmpFrom(a, b, i - 1)
MCmp(a, b) == IF Len(a) < Len(b) THEN -1 ELSE IF Len(a) > Len(b) THEN 1 ELSE MCmpFrom(a, b, Len(a))

RECURSIVE MAddFrom(_, _, _, _)
MAddFrom(a, b, i, c) ==
  IF i > Len(a) /\ i > Len(b) THEN (IF c = 0 THEN <<>> ELSE <<c>>)
  ELSE LET s == Limb(a, i) + Limb(b, i) + c IN <<s % B>> \o MAddFrom(a, b, i + 1, s \div B)
MAdd(a, b) == MAddFrom(a, b, 1, 0)

\* a - b for a >= b
RECURSIVE MSubFrom(_, _, _, _)
MSubFrom(a, b, i, br) ==
  IF i > Len(a) THEN <<>>
  ELSE LET d == Limb(a, i) - Limb(b, i) - br IN
       IF d < 0 THEN <<d + B>> \o MSubFrom(a, b, i + 1, 1) ELSE <<d>> \o MSubFrom(a, b, i + 1, 0)
MSub(a, b) == MNorm(MSubFrom(a, b, 1, 0))

\* a * k for 0 <= k < B
RECURSIVE MMulSmallFrom(_, _, _, _)
MMulSmallFrom(a, k, i, c) ==
  IF i > Len(a) THEN (IF c = 0 THEN <<>> ELSE <<c>>)
  ELSE LET p == a[i] * k + c IN <<p % B>> \o MMulSmallFrom(a, k, i + 1, p \div B)
MMulSmall(a, k) == MNorm(MMulSmallFrom(a, k, 1, 0))

MShift(a, n) == IF a = <<>> THEN <<>> ELSE [i \in 1..n |-> 0] \o a

RECURSIVE MMulFrom(_, _, _)
MMulFrom(a, b, j) == IF j > Len(b) THEN <<>>
                     ELSE MAdd(MShift(MMulSmall(a, b[j]), j - 1), MMulFrom(a, b, j + 1))
MMul(a, b) == MNorm(MMulFrom(a, b, 1))

\* floor division by repeated doubling-subtraction on limbs: long division, one limb at a time,
\* the quotient limb found by binary search (15 steps)
RECURSIVE QDigit(_, _, _, _)
QDigit(r, b, lo, hi) ==   \* largest q in lo..hi with b*q <= r
  IF lo = hi THEN lo
  ELSE LET mid == (lo + hi + 1) \div 2 IN
       IF MCmp(MMulSmall(b, mid), r) <= 0 THEN QDigit(r, b, mid, hi) ELSE QDigit(r, b, lo, mid - 1)
RECURSIVE MDivFrom(_, _, _, _)
MDivFrom(a, b, i, r) ==   \* processes limbs a[i], a[i-1], ... ; returns <<quotient limbs (big endian), remainder>>
  IF i = 0 THEN <<<<>>, r>>
  ELSE LET r1 == MNorm(<<a[i]>> \o r)
           q  == QDigit(r1, b, 0, B - 1)
           r2 == MSub(r1, MMulSmall(b, q))
           rest == MDivFrom(a, b, i - 1, r2)
       IN << <<q>> \o rest[1], rest[2] >>
Rev(s) == [i \in 1..Len(s) |-> s[Len(s) + 1 - i]]
MDivMod(a, b) == LET d == MDivFrom(a, b, Len(a), <<>>) IN [q |-> MNorm(Rev(d[1])), r |-> d[2]]
MDiv(a, b) == MDivMod(a, b).q
MMin(a, b) == IF MCmp(a, b) <= 0 THEN a ELSE b

\* signed
SOf(n) == IF n < 0 THEN [neg |-> TRUE, mag |-> MOfNat(0 - n)] ELSE [neg |-> FALSE, mag |-> MOfNat(n)]
SNorm(x) == LET m == MNorm(x.mag) IN [neg |-> x.neg /\ m # <<>>, mag |-> m]
SNeg(x) == SNorm([neg |-> ~x.neg, mag |-> x.mag])
SAdd(x, y) ==
  IF x.neg = y.neg THEN SNorm([neg |-> x.neg, mag |-> MAdd(x.mag, y.mag)])
  ELSE IF MCmp(x.mag, y.mag) >= 0 THEN SNorm([neg |-> x.neg, mag |-> MSub(x.mag, y.mag)])
  ELSE SNorm([neg |-> y.neg, mag |-> MSub(y.mag, x.mag)])
SSub(x, y) == SAdd(x, SNeg(y))
SCmp(x, y) ==
  IF x.neg /\ ~y.neg THEN -1 ELSE IF ~x.neg /\ y.neg THEN 1
  ELSE IF x.neg THEN MCmp(y.mag, x.mag) ELSE MCmp(x.mag, y.mag)
SEq(x, y) == SNorm(x) = SNorm(y)
SMin(x, y) == IF SCmp(x, y) <= 0 THEN x ELSE y
SZero == [neg |-> FALSE, mag |-> <<>>]
SIsNeg(x) == SNorm(x).neg
=============================================================================
