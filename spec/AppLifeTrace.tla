---------------------------- MODULE AppLifeTrace ----------------------------
(* Judge of the life-cycle runs (harness mode life): one line per run of the real ChfApp in a child process, with the
   outcome AppLife.tla predicts (expect) and the outcome observed.  Clauses (own, not listed properties): Start()
   returns after Terminate(); the SBI listener and the CHF's FTP server are closed; the NRF is asked to delete the
   instance it registered.  Refinement: observed outcome = predicted outcome. *)
EXTENDS Integers, Sequences, FiniteSets, TLC, Json
CONSTANT TraceFile
VARIABLES l, viol, div
tvars == <<l, viol, div>>
Trace == ndJsonDeserialize(TraceFile)
Ev == Trace[l]
ToSet(s) == {s[i] : i \in 1..Len(s)}
V(c, sit) == [prop |-> "LIFE", clause |-> c, trace |-> Ev.trace, step |-> Ev.seq, sit |-> sit]
Sit == [cgf |-> Ev.cgf, answer |-> Ev.answer, traffic |-> Ev.traffic]
Step ==
  LET o == Ev.observed IN
  /\ viol' = viol
       \cup (IF ~o.ran \/ ~o.up THEN {V("harness_child_failed", Sit)} ELSE {})
       \cup (IF o.ran /\ o.up /\ ~o.exited THEN {V("termination_ends", Sit)} ELSE {})
       \cup (IF o.ran /\ o.up /\ o.exited /\ ({"sbi", "cgf"} \cap ToSet(o.listening)) # {} THEN {V("listeners_closed", [Sit EXCEPT !.cgf = Ev.cgf])} ELSE {})
       \cup (IF o.ran /\ o.up /\ o.exited /\ o.nrf # "deregistered" THEN {V("deregisters_itself", [cgf |-> Ev.cgf, answer |-> Ev.answer, traffic |-> Ev.traffic])} ELSE {})
  /\ div' = div \cup (IF o.ran /\ o.up /\ o.exited
                          /\ (ToSet(o.listening) # ToSet(Ev.expect.listening) \/ o.nrf # Ev.expect.nrf \/ o.files # Ev.expect.files)
                        THEN {[trace |-> Ev.trace, step |-> Ev.seq, expect |-> Ev.expect,
                               observed |-> [listening |-> ToSet(o.listening), nrf |-> o.nrf, files |-> o.files]]} ELSE {})
Finish == /\ l = Len(Trace) + 1
          /\ PrintT(<<"VF-RESULT", ToJson([consumed |-> l - 1, viol |-> viol, div |-> div])>>)
          /\ l' = l + 1 /\ UNCHANGED <<viol, div>>
TInit == l = 1 /\ viol = {} /\ div = {}
TNext == (l <= Len(Trace) /\ l' = l + 1 /\ Step) \/ Finish
TSpec == TInit /\ [][TNext]_tvars
=============================================================================
