------------------------------ MODULE AppLife ------------------------------
(***************************************************************************)
(* Life cycle of the CHF application (pkg/service/init.go, sbi.Server.Run, *)
(* rf/abmf/cgf OpenServer): beyond the listed properties.                  *)
(*                                                                         *)
(*  Start     : [cgf] rf abmf servers opened (each adds 1 to the wait      *)
(*              group), the shutdown listener armed (+1), then Server.Run: *)
(*              register at the NRF (retrying) and start the SBI listener  *)
(*              (+1)                                                       *)
(*  Terminate : the context is cancelled; every task that waits on it      *)
(*              proceeds in its own time:                                  *)
(*                rf / abmf : report done (as the code stands their        *)
(*                            Diameter listeners stay open until the       *)
(*                            process ends: DEV_DiameterListenersStay)     *)
(*                cgf       : stops its FTP server, removes the CDR files, *)
(*                            done                                         *)
(*                shutdown  : stops the SBI listener, deregisters at the   *)
(*                            NRF under the identifier it holds, done      *)
(*                sbi       : its serve loop returns once stopped, done    *)
(*  Exit      : Start returns when the wait group is empty                 *)
(*                                                                         *)
(* NRF identifier: a 201 answer carries the instance in Location; after a  *)
(* 200 answer ("profile updated") the code keeps an EMPTY identifier       *)
(* (DEV_EmptyIdAfter200) and deregisters "nf-instances/".                  *)
(***************************************************************************)
EXTENDS Integers, Sequences, FiniteSets, TLC, Json

CONSTANTS CgfEnabled,            \* BOOLEAN
          NrfAnswer,             \* "201" | "200"   what the NRF answers the registration with
          DEV_DiameterListenersStay, DEV_EmptyIdAfter200

Tasks == {"rf", "abmf", "shutdown", "sbi"} \cup (IF CgfEnabled THEN {"cgf"} ELSE {})
VARIABLES phase,      \* "init" | "serving" | "terminating" | "exited"
          pending,    \* tasks that have not reported done to the wait group
          listening,  \* components whose listener is open: subset of {"rf","abmf","cgf","sbi"}
          nrf,        \* "unregistered" | "registered" | "deregistered" | "deregister_wrong_id"
          nfid,       \* "none" | "assigned" | "empty"
          files,      \* TRUE: CDR files of subscribers are on disk
          served      \* TRUE: charging traffic was served (history)
vars == <<phase, pending, listening, nrf, nfid, files, served>>

Init == phase = "init" /\ pending = {} /\ listening = {} /\ nrf = "unregistered" /\ nfid = "none" /\ files = FALSE /\ served = FALSE
Start == /\ phase = "init"
         /\ phase' = "serving" /\ pending' = Tasks
         /\ listening' = {"rf", "abmf", "sbi"} \cup (IF CgfEnabled THEN {"cgf"} ELSE {})
         /\ nrf' = "registered"
         /\ nfid' = IF NrfAnswer = "200" /\ DEV_EmptyIdAfter200 THEN "empty" ELSE "assigned"
         /\ UNCHANGED <<files, served>>
Traffic == phase = "serving" /\ files' = TRUE /\ served' = TRUE /\ UNCHANGED <<phase, pending, listening, nrf, nfid>>
Terminate == phase = "serving" /\ phase' = "terminating" /\ UNCHANGED <<pending, listening, nrf, nfid, files, served>>
Done(t) ==
  /\ phase = "terminating" /\ t \in pending
  /\ (t = "sbi" => "sbi" \notin listening)                      \* the serve loop returns only after Stop
  /\ pending' = pending \ {t}
  /\ listening' = CASE t \in {"rf", "abmf"} -> IF DEV_DiameterListenersStay THEN listening ELSE listening \ {t}
                    [] t = "cgf" -> listening \ {"cgf"}
                    [] t = "shutdown" -> listening \ {"sbi"}
                    [] OTHER -> listening
  /\ files' = IF t = "cgf" THEN FALSE ELSE files                \* Cgf.Terminate removes <cdrFilePath>/*.cdr
  /\ nrf' = IF t = "shutdown" THEN (IF nfid = "assigned" THEN "deregistered" ELSE "deregister_wrong_id") ELSE nrf
  /\ UNCHANGED <<phase, nfid, served>>
\* the shutdown task stops the SBI listener before it reports done; the sbi task can finish only afterwards
Exit == phase = "terminating" /\ pending = {} /\ phase' = "exited" /\ UNCHANGED <<pending, listening, nrf, nfid, files, served>>
Next == Start \/ Traffic \/ Terminate \/ (\E t \in Tasks : Done(t)) \/ Exit
Spec == Init /\ [][Next]_vars /\ WF_vars(Next)

\* what one expects of a shutdown -- checked on the model (with the deviations switched off they hold)
ExitedClean == phase = "exited" => /\ "sbi" \notin listening /\ "cgf" \notin listening
                                   /\ (~DEV_DiameterListenersStay => listening = {})
                                   /\ nrf \in {"deregistered", "deregister_wrong_id"}
DeregistersItself == phase = "exited" => (nrf = "deregistered" \/ (DEV_EmptyIdAfter200 /\ NrfAnswer = "200"))
TerminationEnds == (phase = "terminating") ~> (phase = "exited")
\* the outcome the runner compares with the real process
Outcome == [exited |-> phase = "exited", listening |-> listening, nrf |-> nrf, files |-> files]
EmitBehaviour == IF phase' = "exited" THEN PrintT(<<"VF-BEH", ToJson(<<[cgf |-> CgfEnabled, answer |-> NrfAnswer, traffic |-> served,
                                                                    expect |-> [listening |-> listening', nrf |-> nrf', files |-> files']]>>)>>) ELSE TRUE
View == vars
=============================================================================
