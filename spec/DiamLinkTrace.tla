--------------------------- MODULE DiamLinkTrace ---------------------------
(* C18 / C19 judge.
   "link": one subscriber, consecutive updates against harness-owned peers that delay / drop / reorder their
           answers; per update the peer request numbers it sent (own) and the tag of the answer it acted upon.
   "leak": N updates against the real servers; open Diameter connections and background tasks sampled. *)
EXTENDS Integers, Sequences, FiniteSets, TLC, Json
CONSTANTS TraceFile, ConnBound, TaskBound
VARIABLES l, viol, div
tvars == <<l, viol, div>>
Trace == ndJsonDeserialize(TraceFile)
Ev == Trace[l]
V(p, c, sit) == [prop |-> p, clause |-> c, trace |-> Ev.trace, step |-> Ev.seq, sit |-> sit]
ToSet(s) == {s[i] : i \in 1..Len(s)}
Link ==
  /\ Ev.action = "link"
  /\ LET us == Ev.updates
         ran == {i \in 1..Len(us) : ~us[i].skipped}
         prior(i) == IF i = 1 THEN "none" ELSE Ev.fates[i - 1]
     IN viol' = viol
          \cup {V("C19", "no_wedge", [iface |-> Ev.iface, fate_before |-> prior(i), ms |-> us[i].ms]) : i \in {i \in ran : ~us[i].finished}}
          \* every answer acted upon is the answer to the very request it was awaited for (peer answers are tagged
          \* with the peer's request number; the requests of one update are attributed by arrival order:
          \* rating = tariff lookup, reservation, tariff lookup; account = the debit)
          \cup {V("C19", "answer_matches_request", [iface |-> "abmf", misbehaving |-> Ev.iface, fate_before |-> prior(i)])
                  : i \in {i \in ran : us[i].finished /\ us[i].usedAbmf # -1
                                       /\ ~(Len(us[i].own.abmf) >= 1 /\ us[i].usedAbmf = us[i].own.abmf[1])}}
          \cup {V("C19", "answer_matches_request", [iface |-> "rating", misbehaving |-> Ev.iface, fate_before |-> prior(i)])
                  : i \in {i \in ran : us[i].finished /\ us[i].usedRating >= 0
                                       /\ ~(Len(us[i].own.rating) >= 2 /\ us[i].usedRating = us[i].own.rating[2])}}
          \cup {V("C19", "answer_matches_request", [iface |-> "rating-tariff", misbehaving |-> Ev.iface, fate_before |-> prior(i)])
                  : i \in {i \in ran : us[i].finished /\ us[i].usedCost >= 0
                                       /\ ~(LET o == us[i].own.rating IN
                                              (Len(o) >= 3 /\ us[i].usedCost = o[3]) \/ (Len(o) \in {1, 2} /\ us[i].usedCost = o[1]))}}
          \cup {V("C19", "answer_matches_request", [iface |-> "rating-first-tariff", misbehaving |-> Ev.iface, fate_before |-> prior(i)])
                  : i \in {i \in ran : us[i].finished /\ (us[i].usedCostFirst >= 0 \/ us[i].usedCostFirst = -3)
                                       /\ ~(Len(us[i].own.rating) >= 1 /\ us[i].usedCostFirst = us[i].own.rating[1])}}
          \* a request that the peers answer promptly completes with its own answers, whatever happened to earlier ones
          \* ("it never prevents later requests of that subscriber from completing")
          \cup {V("C19", "later_request_completes", [iface |-> Ev.iface, fate_before |-> prior(i), ms |-> us[i].ms,
                                                     rating |-> us[i].usedRating, abmf |-> us[i].usedAbmf])
                  : i \in {i \in ran : ~Ev.dense /\ Ev.fates[i] = "prompt" /\ us[i].finished
                                       /\ ~(/\ us[i].ms < 4500
                                            /\ Len(us[i].own.rating) >= 2 /\ us[i].usedRating = us[i].own.rating[2]
                                            /\ Len(us[i].own.abmf) >= 1 /\ us[i].usedAbmf = us[i].own.abmf[1])}}
          \cup {V("C19", "request_fails_cleanly", [iface |-> Ev.iface, status |-> us[i].status]) : i \in {i \in ran : us[i].finished /\ us[i].status # us[i].okStatus}}
  /\ div' = div
\* two subscribers in flight at once, one of them with answers held for 2 s: every operation acts on answers to its own
\* requests (the first sentence of C19 names no subscriber) and completes
Cross ==
  /\ Ev.action = "cross"
  /\ LET ss == Ev.sides IN
     viol' = viol
       \cup {V("C19", "answer_matches_request", [iface |-> "cross-subscriber", misbehaving |-> Ev.iface, fate_before |-> "slow"])
               : i \in {i \in 1..Len(ss) : \/ (ss[i].usedAbmf # -1 /\ ss[i].usedAbmf \notin ToSet(ss[i].own.abmf))
                                           \/ (ss[i].usedRating >= 0 /\ ss[i].usedRating \notin ToSet(ss[i].own.rating))}}
       \cup {V("C19", "later_request_completes", [iface |-> Ev.iface, fate_before |-> "slow", ms |-> ss[i].ms,
                                                  rating |-> ss[i].usedRating, abmf |-> ss[i].usedAbmf])
               : i \in {i \in 1..Len(ss) : ~(ss[i].finished /\ ss[i].status = 200
                                             /\ ss[i].usedAbmf \in ToSet(ss[i].own.abmf) /\ ss[i].usedRating \in ToSet(ss[i].own.rating))}}
  /\ div' = div
Leak ==
  /\ Ev.action = "leak"
  /\ LET ss == Ev.samples
         last == ss[Len(ss)]
     IN viol' = viol
          \cup (IF \E i \in 1..Len(ss) : ss[i].conns > ConnBound THEN {V("C18", "connections_bounded", [n |-> Ev.n, subs |-> Ev.subs, conns |-> last.conns])} ELSE {})
          \cup (IF ~Ev.noAcct /\ \E i \in 1..Len(ss) : ss[i].tasks > TaskBound THEN {V("C18", "tasks_bounded", [n |-> Ev.n, subs |-> Ev.subs, tasks |-> last.tasks])} ELSE {})
          \cup (IF Ev.failed > 0 THEN {V("C18", "harness_updates_failed", [failed |-> Ev.failed])} ELSE {})
  /\ div' = div
Finish == /\ l = Len(Trace) + 1
          /\ PrintT(<<"VF-RESULT", ToJson([consumed |-> l - 1, viol |-> viol, div |-> div])>>)
          /\ l' = l + 1 /\ UNCHANGED <<viol, div>>
TInit == l = 1 /\ viol = {} /\ div = {}
TNext == (l <= Len(Trace) /\ l' = l + 1 /\ (Link \/ Cross \/ Leak)) \/ Finish
TSpec == TInit /\ [][TNext]_tvars
=============================================================================
