----------------------------- MODULE RouterTrace -----------------------------
(* C13 judge.  Lines: {"action":"routes", services, routes(real Engine.Routes()), model_routes} and
   {"action":"probe", method, path, tok, status, oneJson, effects} for EVERY real route x token kind. *)
EXTENDS Integers, Sequences, FiniteSets, TLC, Json
CONSTANT TraceFile
VARIABLES l, viol, div
tvars == <<l, viol, div>>
Trace == ndJsonDeserialize(TraceFile)
Ev == Trace[l]
V(c, sit) == [prop |-> "C13", clause |-> c, trace |-> Ev.trace, step |-> Ev.seq, sit |-> sit]
ToSet(s) == {s[i] : i \in 1..Len(s)}
Step ==
  \/ /\ Ev.action = "routes"
     /\ viol' = viol
     /\ div' = div \cup (IF ToSet(Ev.routes) = ToSet(Ev.model_routes) THEN {}
                         ELSE {[trace |-> Ev.trace, step |-> Ev.seq, extra |-> ToSet(Ev.routes) \ ToSet(Ev.model_routes),
                                missing |-> ToSet(Ev.model_routes) \ ToSet(Ev.routes)]})
  \/ /\ Ev.action = "probe"
     /\ viol' = viol
          \cup (IF Ev.tok # "valid" /\ Ev.status # 401
                  THEN {V("all_routes_protected", [method |-> Ev.method, route |-> Ev.route, tok |-> Ev.tok, status |-> Ev.status])} ELSE {})
          \cup (IF Ev.tok # "valid" /\ (Ev.effects # <<>> \/ ~Ev.oneJson)
                  THEN {V("no_processing", [method |-> Ev.method, route |-> Ev.route, tok |-> Ev.tok, effects |-> Ev.effects, oneJson |-> Ev.oneJson])} ELSE {})
          \cup (IF Ev.tok = "valid" /\ Ev.status = 401
                  THEN {V("harness_sanity_valid_token_rejected", [route |-> Ev.route])} ELSE {})
     /\ div' = div
  \* a non-canonical spelling of a registered resource, sent without an acceptable token: refused (401), not found
  \* (404 / 405) or redirected (3xx) -- never served, and without any effect
  \/ /\ Ev.action = "spell"
     /\ viol' = viol
          \cup (IF Ev.status \notin {401, 404, 405, 301, 302, 307, 308} \/ Ev.effects # <<>>
                  THEN {V("no_route_outside_the_protected_groups", [method |-> Ev.method, route |-> Ev.route, tok |-> Ev.tok, spelling |-> Ev.spelling,
                                                                     status |-> Ev.status, effects |-> Ev.effects])} ELSE {})
     /\ div' = div
\* the premise of C13: the CHF registers with a scripted NRF through the real Server.Run, then an unauthenticated request
\* is sent to the SBI listener over HTTP/2 cleartext
Nrf ==
  /\ Ev.action = "nrf"
  /\ LET last == Ev.script[Len(Ev.script)] IN
     /\ viol' = viol
          \cup (IF last \in {"201t", "200t"} /\ Ev.returned /\ ~(Ev.oauth /\ Ev.probe = 401)
                  THEN {V("oauth_declared_by_nrf_is_enforced", [oauth |-> Ev.oauth, probe |-> Ev.probe])} ELSE {})
     /\ div' = div
          \cup (IF ~Ev.returned THEN {[trace |-> Ev.trace, step |-> Ev.seq, what |-> "registration did not return", script |-> Ev.script]} ELSE {})
          \cup (IF Ev.returned /\ Ev.nfIdKind = "empty" THEN {[trace |-> Ev.trace, step |-> Ev.seq, what |-> "NfId empty after registration", script |-> Ev.script]} ELSE {})
          \cup (IF Ev.returned /\ Ev.attempts # Len(Ev.script) THEN {[trace |-> Ev.trace, step |-> Ev.seq, what |-> "number of attempts differs from the model", script |-> Ev.script]} ELSE {})
          \cup (IF Ev.returned /\ last \notin {"201t", "200t"} /\ Ev.probe = 401 THEN {[trace |-> Ev.trace, step |-> Ev.seq, what |-> "token required although the NRF did not declare OAuth2", script |-> Ev.script]} ELSE {})
Finish == /\ l = Len(Trace) + 1
          /\ PrintT(<<"VF-RESULT", ToJson([consumed |-> l - 1, viol |-> viol, div |-> div])>>)
          /\ l' = l + 1 /\ UNCHANGED <<viol, div>>
TInit == l = 1 /\ viol = {} /\ div = {}
TNext == (l <= Len(Trace) /\ l' = l + 1 /\ (Step \/ Nrf)) \/ Finish
TSpec == TInit /\ [][TNext]_tvars
=============================================================================
