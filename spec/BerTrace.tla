------------------------------ MODULE BerTrace ------------------------------
(* C04 / C05 / C16 judge: every line is one execution of the REAL cdr/asn codec.
   "marshal": typed value tree given to BerMarshalWithParams, the octets (or error/panic), and the tree
   decoded back by UnmarshalWithParams.  "decode": octets given to UnmarshalWithParams for a target type. *)
EXTENDS Ber, Json
CONSTANT TraceFile
VARIABLES l, viol, div
tvars == <<l, viol, div>>
Trace == ndJsonDeserialize(TraceFile)
Ev == Trace[l]
V(p, c, sit) == [prop |-> p, clause |-> c, trace |-> Ev.trace, step |-> Ev.seq, sit |-> sit]

\* value part of a tree (declared parameters dropped; absent members compare equal)
RECURSIVE Val(_)
Val(n) ==
  IF n.absent THEN [k |-> n.k, absent |-> TRUE]
  ELSE CASE n.k \in {"int", "enum"} -> [k |-> n.k, v |-> SNorm(n.v)]
         [] n.k \in {"bool", "octets"} -> [k |-> n.k, v |-> n.v]
         [] n.k = "null" -> [k |-> n.k]
         [] n.k = "str" -> [k |-> n.k, v |-> n.v, kind |-> n.kind]
         [] n.k = "bits" -> [k |-> n.k, v |-> n.v, bitlen |-> n.bitlen]
         [] n.k \in {"wrap", "struct", "slice"} -> [k |-> n.k, kids |-> [i \in 1..Len(n.kids) |-> Val(n.kids[i])]]
         [] n.k = "choice" -> [k |-> n.k, present |-> n.present,
                               alt |-> IF n.present >= 1 /\ n.present <= Len(n.kids) THEN Val(n.kids[n.present]) ELSE <<>>]
         [] OTHER -> [k |-> n.k]

TopP == LET q == Ev.node.p IN [tag |-> q.tag, optional |-> q.optional, explicit |-> q.explicit, set |-> q.set, st |-> q.st, open |-> q.open]
Sit == [mode |-> Ev.mode, type |-> IF Ev.mode = "shape" THEN "generated" ELSE Ev.type, kind |-> Ev.node.k]

Marshal ==
  /\ Ev.action = "marshal"
  /\ LET exp == Enc(Ev.node, TopP)
         crashed == Ev.enc \notin {"", "error"}
         encoded == Ev.enc = ""
     IN /\ viol' = viol
          \cup (IF crashed THEN {V("C04", "never_panics", Sit)} ELSE {})
          \cup (IF encoded /\ ~WellFormedTLV(Ev.bytes) THEN {V("C04", "well_formed", Sit)} ELSE {})
          \cup (IF encoded /\ ~IsErr(exp) /\ Ev.bytes # exp THEN {V("C04", "equals_reference", Sit)} ELSE {})
          \* an encoding is a value: the octets handed out by earlier calls still read as they did when they were returned
          \cup (IF ~Ev.held THEN {V("C04", "earlier_output_intact", Sit)} ELSE {})
          \cup (IF ~IsErr(exp) /\ Ev.enc = "error" THEN {V("C04", "encodable_value_rejected", Sit)} ELSE {})
          \cup (IF encoded /\ Ev.dec \notin {"", "error"} THEN {V("C05", "decode_never_panics", Sit)} ELSE {})
          \cup (IF encoded /\ ~IsErr(exp) /\ Ev.dec = "error" THEN {V("C05", "decode_succeeds", Sit)} ELSE {})
          \cup (IF encoded /\ ~IsErr(exp) /\ Ev.dec = "" /\ Val(Ev.back) # Val(Ev.node) THEN {V("C05", "round_trip", Sit)} ELSE {})
          \cup (IF IsErr(exp) /\ crashed THEN {V("C05", "unsupported_is_error", Sit)} ELSE {})
          \* a value the reference cannot encode (an unsupported construct inside it) was encoded all the same, and what
          \* decodes from those octets is another value
          \cup (IF IsErr(exp) /\ encoded /\ Ev.dec = "" /\ Val(Ev.back) # Val(Ev.node)
                  THEN {V("C05", "unsupported_is_error", [Sit EXCEPT !.kind = "wrong value"])} ELSE {})
        /\ div' = div \cup (IF IsErr(exp) /\ encoded THEN {[trace |-> Ev.trace, step |-> Ev.seq, what |-> "reference rejects, codec encodes", type |-> Ev.type]} ELSE {})
                      \cup (IF encoded /\ Ev.dec = "" /\ (Val(Ev.back) = Val(Ev.node)) # Ev.deq
                              THEN {[trace |-> Ev.trace, step |-> Ev.seq, what |-> "tree equality and reflect.DeepEqual disagree", type |-> Ev.type]} ELSE {})
Decode ==
  /\ Ev.action = "decode"
  /\ viol' = viol
       \* calls made at the same time from many tasks: the octets are those of the call made alone, and decode to its value
       \cup (IF Ev.target = "@hot" /\ Ev.result = "encdiff" THEN {V("C04", "concurrent_calls_agree", [input |-> Ev.input])} ELSE {})
       \cup (IF Ev.target = "@hot" /\ Ev.result \notin {"ok", "encdiff", "decdiff"} THEN {V("C04", "never_panics", [mode |-> "concurrent", type |-> "schema", kind |-> Ev.result])} ELSE {})
       \cup (IF Ev.target = "@hot" /\ Ev.result = "decdiff" THEN {V("C05", "round_trip", [mode |-> "concurrent", type |-> "schema", kind |-> "struct"])} ELSE {})
       \cup (IF Ev.target # "@hot" /\ Ev.result \notin {"ok", "error"} THEN {V("C16", "never_panics", [cls |-> Ev.cls, target |-> Ev.tinfo.k, result |-> Ev.result])} ELSE {})
       \cup (IF Ev.result = "ok" /\ Ev.cls # "deep" /\ MustError(Ev.bytes, Ev.tinfo) THEN {V("C16", "malformed_is_error", [cls |-> Ev.cls, target |-> Ev.tinfo.k, empty |-> Len(Ev.bytes) = 0])} ELSE {})
  /\ div' = div
Types == Ev.action = "types" /\ UNCHANGED <<viol, div>>
Finish == /\ l = Len(Trace) + 1
          /\ PrintT(<<"VF-RESULT", ToJson([consumed |-> l - 1, viol |-> viol, div |-> div])>>)
          /\ l' = l + 1 /\ UNCHANGED <<viol, div>>
TInit == l = 1 /\ viol = {} /\ div = {}
TNext == (l <= Len(Trace) /\ l' = l + 1 /\ (Marshal \/ Decode \/ Types)) \/ Finish
TSpec == TInit /\ [][TNext]_tvars
=============================================================================
