-------------------------------- MODULE BerMC --------------------------------
(* Enumeration of codec test cases (primitive boundary values, fill strategies for the schema types,
   shapes of generated struct/choice types in the codec's tag language) and, on the specification itself,
   the check that the reference encoder only produces well-formed BER and that INTEGER contents invert. *)
EXTENDS Ber, Json
CONSTANTS IntVals,     \* Big signed values
          Lens,        \* string / octet-string lengths
          BitLens,
          Kinds1, Tags1, \* one-member shapes
          Kinds2, TagPairs, \* two-member shapes
          Leafs, Seeds, Strategies, FuzzFirst, EmitOneIn
VARIABLES case, done
vars == <<case, done>>

P0 == [tag |-> -1, optional |-> FALSE, explicit |-> FALSE, set |-> FALSE, st |-> 0, open |-> FALSE]
PT(t, opt, ex) == [tag |-> t, optional |-> opt, explicit |-> ex = "explicit", set |-> ex = "set",
                   st |-> (CASE ex = "utf8" -> 12 [] ex = "ia5" -> 22 [] ex = "graphic" -> 25 [] OTHER -> 0), open |-> FALSE]
\* canonical model values for the kinds the model can build itself
Leaf(kind, x) ==
  CASE kind \in {"int", "int32", "goint"} -> [k |-> "int", absent |-> FALSE, v |-> x]
    [] kind = "enum" -> [k |-> "enum", absent |-> FALSE, v |-> x]
    [] kind = "bool" -> [k |-> "bool", absent |-> FALSE, v |-> TRUE]
    [] kind = "null" -> [k |-> "null", absent |-> FALSE, v |-> TRUE]
    [] kind = "octets" -> [k |-> "octets", absent |-> FALSE, v |-> <<1, 2, 3>>]
    [] kind \in {"utf8", "ia5", "graphic"} -> [k |-> "str", absent |-> FALSE, v |-> <<65, 66>>, kind |-> kind]
    [] kind = "bits" -> [k |-> "bits", absent |-> FALSE, v |-> <<160>>, bitlen |-> 3]
    [] OTHER -> [k |-> "int", absent |-> FALSE, v |-> x]
With(n, p) == [f \in DOMAIN n \cup {"p"} |-> IF f = "p" THEN p ELSE n[f]]

Members1 == {<<[kind |-> k, tag |-> t, opt |-> o[1], present |-> o[2], extra |-> e]>> :
               k \in Kinds1, t \in Tags1, o \in {<<FALSE, TRUE>>, <<TRUE, TRUE>>, <<TRUE, FALSE>>}, e \in {"", "set", "explicit"}}
Members2 == {<<[kind |-> a, tag |-> tp[1], opt |-> oa, present |-> TRUE, extra |-> ""],
               [kind |-> b, tag |-> tp[2], opt |-> ob[1], present |-> ob[2], extra |-> ""]>> :
               a \in Kinds2, b \in Kinds2, tp \in TagPairs, oa \in {FALSE}, ob \in {<<FALSE, TRUE>>, <<TRUE, TRUE>>, <<TRUE, FALSE>>}}

\* character strings of the plain Go type whose ASN.1 kind is DECLARED in the tag language (utf8 / ia5 / graphic), alone and as
\* the elements of a list (the declaration on the list applies to its elements)
MembersStr == {<<[kind |-> k, tag |-> t, opt |-> o[1], present |-> o[2], extra |-> e]>> :
                 k \in {"strplain", "slicestr"}, t \in {0, 31}, o \in {<<FALSE, TRUE>>, <<TRUE, TRUE>>, <<TRUE, FALSE>>},
                 e \in {"", "utf8", "ia5", "graphic"}}

\* a SEQUENCE is positional: two members may carry the same identifier -- two untagged members of one type, or a context tag
\* used again after a mandatory member in between
MembersSame == {<<[kind |-> a, tag |-> -1, opt |-> FALSE, present |-> TRUE, extra |-> ""],
                  [kind |-> a, tag |-> -1, opt |-> FALSE, present |-> TRUE, extra |-> ""]>> : a \in {"int", "octets", "utf8", "bool", "enum"}}
               \cup {<<[kind |-> a, tag |-> 0, opt |-> TRUE, present |-> p1, extra |-> ""],
                      [kind |-> "int", tag |-> 1, opt |-> FALSE, present |-> TRUE, extra |-> ""],
                      [kind |-> a, tag |-> 0, opt |-> TRUE, present |-> p2, extra |-> ""]>> : a \in {"int", "octets"}, p1 \in BOOLEAN, p2 \in BOOLEAN}

\* a context-tagged OPTIONAL member [N] followed by an UNTAGGED member whose universal tag number is N as well
\* (BOOLEAN 1, INTEGER 2, BIT STRING 3, OCTET STRING 4, NULL 5, ENUMERATED 10, UTF8String 12, SEQUENCE 16): class matters
UnivOf == [bool |-> 1, int |-> 2, bits |-> 3, octets |-> 4, null |-> 5, enum |-> 10, utf8 |-> 12, struct2 |-> 16, sliceint |-> 16]
MembersMixed == {<<[kind |-> a, tag |-> UnivOf[b], opt |-> TRUE, present |-> pr, extra |-> ""],
                   [kind |-> b, tag |-> -1, opt |-> FALSE, present |-> TRUE, extra |-> ""]>> :
                   a \in {"int", "octets", "bool"}, b \in DOMAIN UnivOf \cap Kinds1, pr \in BOOLEAN}
               \cup {<<[kind |-> b, tag |-> -1, opt |-> FALSE, present |-> TRUE, extra |-> ""],
                      [kind |-> a, tag |-> UnivOf[b], opt |-> TRUE, present |-> pr, extra |-> ""]>> :
                   a \in {"int", "octets"}, b \in DOMAIN UnivOf \cap Kinds1, pr \in BOOLEAN}

OidArcs == IF FuzzFirst = {} THEN {}
           ELSE {<<1, 2>>, <<0, 0>>, <<2, 999, 3>>, <<1, 2, 840, 113549>>, <<2, 100, 16383, 16384>>, <<1, 3, 6, 1, 4, 1, 2097151>>}
Cases ==
     {[mode |-> "prim", type |-> "int", val |-> x] : x \in IntVals}
  \cup {[mode |-> "prim", type |-> "enum", val |-> x] : x \in IntVals}
  \cup {[mode |-> "prim", type |-> "goint", val |-> x] : x \in IntVals}      \* Go's platform int: the same INTEGER
  \cup {[mode |-> "prim", type |-> t, n |-> n] : t \in {"octets", "utf8"}, n \in Lens}
  \cup {[mode |-> "prim", type |-> "bits", n |-> n] : n \in BitLens}
  \cup {[mode |-> "prim", type |-> t, n |-> n] : t \in {"bool"}, n \in {0, 1}}
  \cup {[mode |-> "prim", type |-> t, n |-> 0] : t \in {"null", "oid", "uint8", "int32"}}
  \cup {[mode |-> "schema", leaf |-> lf, present |-> s, seed |-> sd] : lf \in Leafs, s \in Strategies, sd \in Seeds}
  \cup {[mode |-> "fuzz", only |-> a] : a \in FuzzFirst}
  \* encodings of values the codec cannot produce itself (OBJECT IDENTIFIER), written by the reference: decoder input
  \cup {[mode |-> "foreign", kind |-> "oid", bytes |-> TLV(0, FALSE, 6, OidContent(a))] : a \in OidArcs}
  \cup {[mode |-> "shape", top |-> tp, members |-> m, leaf |-> lf, seed |-> sd] :
          tp \in {"struct", "choice"}, m \in Members1 \cup Members2, lf \in Leafs, sd \in {CHOOSE z \in Seeds : TRUE}}
  \cup {[mode |-> "shape", top |-> "struct", members |-> m, leaf |-> lf, seed |-> sd] :
          m \in MembersMixed \cup MembersSame, lf \in Leafs, sd \in Seeds}
  \cup {[mode |-> "shape", top |-> tp, members |-> m, leaf |-> lf, seed |-> sd] :
          tp \in {"struct", "choice"}, m \in MembersStr, lf \in Leafs, sd \in {CHOOSE z \in Seeds : TRUE}}

Init == case = <<>> /\ done = FALSE
Pick == ~done /\ (\E c \in Cases : case' = c) /\ done' = TRUE
Next == Pick
Spec == Init /\ [][Next]_vars
View == vars

\* the model builds the typed value itself for shapes over the kinds it knows and checks the reference on it
ShapeNode(c) ==
  LET kids == [i \in 1..Len(c.members) |->
                 LET m == c.members[i] IN
                 IF (c.top = "choice" /\ ~m.present) \/ (m.opt /\ ~m.present)
                   THEN [k |-> "int", absent |-> TRUE, p |-> PT(m.tag, m.opt /\ c.top # "choice", m.extra)]
                   ELSE With(Leaf(m.kind, SOf(-129)), PT(m.tag, m.opt /\ c.top # "choice", m.extra))]
  IN IF c.top = "struct" THEN [k |-> "struct", absent |-> FALSE, p |-> P0, kids |-> kids]
     ELSE [k |-> "choice", absent |-> FALSE, p |-> P0, kids |-> kids,
           present |-> IF \E i \in 1..Len(kids) : ~kids[i].absent THEN CHOOSE i \in 1..Len(kids) : ~kids[i].absent ELSE 0]
Modelled(c) == c.mode = "shape" /\ \A i \in 1..Len(c.members) :
                 c.members[i].kind \in {"int", "goint", "int32", "enum", "bool", "null", "octets", "utf8", "ia5", "graphic", "bits"}
\* two's complement inverse of IntContent
RECURSIVE FromOcts(_, _, _)
FromOcts(o, i, acc) == IF i > Len(o) THEN acc ELSE FromOcts(o, i + 1, MAdd(MMulSmall(acc, 256), MOfNat(o[i])))
DecInt(o) == IF o[1] < 128 THEN [neg |-> FALSE, mag |-> FromOcts(o, 1, <<>>)]
             ELSE SNorm([neg |-> TRUE, mag |-> MSub(P256(Len(o)), FromOcts(o, 1, <<>>))])
InvReference ==
  done =>
    /\ (case.mode = "prim" /\ case.type \in {"int", "enum", "goint"} =>
          LET c == IntContent(case.val) IN
          /\ SEq(DecInt(c), case.val)
          /\ WellFormedTLV(TLV(0, FALSE, 2, c)))
    /\ (Modelled(case) => LET e == Enc(ShapeNode(case), P0) IN IsErr(e) \/ WellFormedTLV(e))
EmitBehaviour == IF RandomElement(1..EmitOneIn) = 1 THEN PrintT(<<"VF-BEH", ToJson(<<case'>>)>>) ELSE TRUE
=============================================================================
