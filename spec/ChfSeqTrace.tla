----------------------------- MODULE ChfSeqTrace -----------------------------
(***************************************************************************)
(* Trace validation for the ChfSeq family.  Input: concatenated ndjson     *)
(* traces recorded from the REAL code (harness `vfh seq`): per step the    *)
(* inputs actually sent, the answer, and the projection of the             *)
(* implementation state.                                                   *)
(*                                                                         *)
(*  observer layer   : the property formulas of ChfSeq are evaluated on the *)
(*                     OBSERVED state after every step, with history       *)
(*                     variables advanced from the logged inputs; a false  *)
(*                     clause is added to `viol`.                          *)
(*  refinement layer : ChfSeq's operator for the step, applied to the      *)
(*                     observed pre-state, must yield the observed         *)
(*                     post-state and answer; a mismatch is added to `div` *)
(*                     and the model is resynchronised to the observation. *)
(* The result leaves TLC through the Finish action (one marked JSON line). *)
(***************************************************************************)
EXTENDS ChfSeq, Json

CONSTANT TraceFile
VARIABLES l, pre, h, viol, div, meta
tvars == <<l, pre, h, viol, div, meta>>

Trace == ndJsonDeserialize(TraceFile)
Ev == Trace[l]

-----------------------------------------------------------------------------
(* observation -> ChfSeq state *)
ObsRec(r) == [ref |-> r.ref, lrsn |-> r.lrsn, chid |-> r.chid, consumer |-> r.consumer,
              subscriber |-> r.subscriber, cause |-> r.cause, rsn |-> r.rsn, conts |-> r.conts, pad |-> r.pad, plmn |-> r.plmn]
ObsUe(x) == [rg |-> [g \in DOMAIN x.rg |-> [rtype |-> x.rg[g].rtype, reserved |-> x.rg[g].reserved,
                                            ucost |-> x.rg[g].ucost, reqnum |-> x.rg[g].reqnum]],
             notify |-> x.notify,
             recs |-> [i \in 1..Len(x.recs) |-> ObsRec(x.recs[i])],
             cdr |-> x.cdr, lim |-> x.lim]
ObsSt(s) == [acct |-> [k \in DOMAIN s.acct |-> [quota |-> s.acct[k].quota, cost |-> s.acct[k].costn]],
             ue |-> [u \in {v \in DOMAIN s.ue : s.ue[v].known} |-> ObsUe(s.ue[u])],
             lrsn |-> s.lrsn, cfg |-> s.cfg]
ConvUsage(us) == [i \in 1..Len(us) |->
                    [rg |-> us[i].rg, req |-> us[i].req,
                     conts |-> [j \in 1..Len(us[i].conts) |->
                                 [m |-> us[i].conts[j].m, vol |-> us[i].conts[j].vol, id |-> us[i].conts[j].c]]]]
ConvMui(m) == [i \in 1..Len(m) |-> [rg |-> m[i].rg, granted |-> m[i].granted, fui |-> m[i].fui, trig |-> m[i].trig,
                                     vt |-> m[i].vt, thr |-> m[i].thr]]

V(prop, clause, sit) == [prop |-> prop, clause |-> clause, trace |-> Ev.trace, step |-> Ev.seq, sit |-> sit]
D(what) == [trace |-> Ev.trace, step |-> Ev.seq, action |-> Ev.action, what |-> what]

AcctKeys(s) == {k \in DOMAIN s.acct : s.acct[k].cost > 0}
KU(k) == Ev.state.acct[k].u
KG(k) == Ev.state.acct[k].g

-----------------------------------------------------------------------------
(* clauses evaluated on every observed post-state *)
StateClauses(obs, h2) ==
     {V("C01", "conservation", [k |-> k]) : k \in {k \in AcctKeys(obs) : k \in DOMAIN h2.credited /\ ~ConservationAt(obs, h2, KU(k), KG(k))}}
  \cup (IF meta.wb THEN {V("C06", "no_overdraft", [k |-> k]) : k \in {k \in DOMAIN obs.acct : ~NoOverdraftAt(obs, k)}} ELSE {})
  \cup {V("C02", "exactly_once", [lost |-> Len(SessionConts(obs, h2.sess[r].u, r)) < Len(h2.sess[r].ids)]) : r \in {r \in DOMAIN h2.sess : ~ExactlyOnceAt(obs, h2, r)}}
  \cup {V("C02", "record_identity", [live |-> h2.sess[r].live]) : r \in {r \in DOMAIN h2.sess : ~RecordIdentityAt(obs, h2, r)}}
  \cup {V("C10", "ref_designates", [lost |-> Len(SessionConts(obs, h2.sess[r].u, r)) < Len(h2.sess[r].ids)]) : r \in {r \in DOMAIN h2.sess : h2.sess[r].live /\ ~ExactlyOnceAt(obs, h2, r)}}

(* C03: the file of every subscriber, as read by the independent TS 32.297 summariser *)
FileOK(f) ==
  /\ f.parsed /\ f.complete
  /\ f.hdrLenField = f.hdrActual
  /\ f.fileLenField = f.size
  /\ f.end = f.size
  /\ f.nCdrsField = Len(f.recs)
  /\ \A i \in 1..Len(f.recs) :
        /\ f.recs[i].cdrLen = f.recs[i].tlvLen
        /\ f.recs[i].tlvOk
        /\ f.recs[i].cls = 2 /\ f.recs[i].tag = 200 /\ f.recs[i].cons   \* [200] CHF record, X.690 context class
FileWithinLimit(f) == \A i \in 1..Len(f.recs) : f.recs[i].tlvLen <= 65535 /\ f.recs[i].tlvLen >= 0
\* `own` = <<lo, hi>>: the (consecutive) local sequence numbers of the containers carried by the request of this step; a record whose over-long encoding is due to
\* this single request alone (all its containers are the request's own, or it was just created) is situation "single_request"
\* (a record that was already over-long before this step was judged at the step that made it so)
OldOver(u, i) == u \in DOMAIN pre.ue /\ i <= Len(pre.ue[u].recs) /\ Ev.state.ue[u].known /\
                 i <= Len(Ev.state.ue[u].recs) /\ Len(pre.ue[u].recs[i].conts) = Len(Ev.state.ue[u].recs[i].conts) /\
                 Ev.state.ue[u].recs[i].berLen > 65535
NewOver(u, x) == {i \in 1..Len(x.recs) : x.recs[i].berLen > 65535 /\ ~OldOver(u, i)}
OverKind(u, x, own, isCreate) ==
  IF \E i \in NewOver(u, x) : ~(isCreate \/ (x.recs[i].conts # <<>> /\ \A j \in 1..Len(x.recs[i].conts) : (x.recs[i].conts[j][1] >= own[1] /\ x.recs[i].conts[j][1] <= own[2])))
    THEN "accumulated" ELSE "single_request"
FileClausesAt(s, own, isCreate) ==
  UNION {
    LET x == s.ue[u] IN
    IF ~x.known THEN {}
    ELSE (IF ~x.file.exists \/ FileOK(x.file) THEN {}
            ELSE {V("C03", "file_well_formed", [over |-> ~FileWithinLimit(x.file), kind |-> IF FileWithinLimit(x.file) THEN "n/a" ELSE OverKind(u, x, own, isCreate)])})
      \cup (IF NewOver(u, x) = {} THEN {}
            ELSE {V("C03", "record_within_limit", [kind |-> OverKind(u, x, own, isCreate)])})
    : u \in DOMAIN s.ue }
FileClauses(s) == FileClausesAt(s, <<1, 0>>, FALSE)
FileWritten(u) == Ev.state.ue[u].known /\ Ev.state.ue[u].file.exists

(* C02: what the operation wrote to the subscriber's CDR file, read back by the independent TLV walker (tlv.go:
   session reference [16], cause [9], containers of [5] as <<lsn, rg, total, up, down, ssu>>), equals the records the
   CHF holds -- after an update all records of the subscriber in order, after a release the released record *)
SameRec(fr, mr) == fr.ref = mr.ref /\ fr.cause = mr.cause /\ (fr.contsSkipped \/ fr.conts = mr.conts)
FileHoldsAll(u) ==
  LET f == Ev.state.ue[u].file  rs == Ev.state.ue[u].recs IN
  f.exists /\ f.parsed /\ f.complete /\ Len(f.recs) = Len(rs)
  /\ \A i \in 1..Len(rs) : f.recs[i].tlvOk /\ SameRec(f.recs[i], rs[i])
FileHoldsReleased(u, ref) ==
  LET f == Ev.state.ue[u].file  rs == Ev.state.ue[u].recs
      is == {i \in 1..Len(rs) : rs[i].ref = ref} IN
  f.exists /\ f.parsed /\ f.complete /\ Len(f.recs) = 1 /\ is # {}
  /\ f.recs[1].tlvOk /\ SameRec(f.recs[1], rs[CHOOSE i \in is : \A j \in is : j <= i])
UKnown(u) == u \in DOMAIN Ev.state.ue /\ Ev.state.ue[u].known
Oversize(u) == \E i \in 1..Len(Ev.state.ue[u].recs) : Ev.state.ue[u].recs[i].berLen > 65535

(* C06 per answered usage entry *)
RECURSIVE GAClauses(_, _, _, _, _, _)
GAClauses(p, u, usage, mui, trig, i) ==
  IF i > Len(usage) THEN {}
  ELSE LET us == usage[i]
           k  == Key(u, us.rg)
           js == {j \in 1..Len(mui) : mui[j].rg = us.rg}
           applicable == us.req >= 0 /\ HasOnline(us) /\ k \in DOMAIN p.acct /\ p.acct[k].cost > 0 /\ k \in DOMAIN h.credited
           over == applicable /\ \E j \in js : ~GrantWithin(p, h, u, us, mui[j])
           nofui == applicable /\ \E j \in js : ~GrantFui(p, h, u, us, mui[j])
           mode == IF DebitMode(p, u, us.rg, trig) THEN "debit" ELSE "reserve"
       IN (IF over THEN {V("C06", "grant_affordable", [rg |-> us.rg, mode |-> mode, which |-> "granted_exceeds"])} ELSE {})
          \cup (IF nofui THEN {V("C06", "grant_affordable", [rg |-> us.rg, mode |-> mode, which |-> "fui_missing"])} ELSE {})
          \cup GAClauses(p, u, usage, mui, trig, i + 1)

(* C02 opening time: BCD YYMMDDhhmmss, sign, hh, mm of the zone in force *)
Bcd(n) == (n \div 10) * 16 + (n % 10)
OpTimeOK(bytes, cand, tz) ==
  LET az == IF tz < 0 THEN 0 - tz ELSE tz IN
  /\ Len(bytes) = 9
  /\ \A i \in 1..6 : bytes[i] = Bcd(cand[i])
  /\ bytes[7] = (IF tz >= 0 THEN 43 ELSE 45)
  /\ bytes[8] = Bcd(az \div 3600)
  /\ bytes[9] = Bcd((az % 3600) \div 60)

-----------------------------------------------------------------------------
UeKnownH(u) == \E r \in DOMAIN h.sess : h.sess[r].u = u     \* a create for u was acknowledged
RefKnownH(u, ref) == ref \in DOMAIN h.sess /\ h.sess[ref].u = u /\ h.sess[ref].live

Explainable(p, u, usage) ==
  \A i \in 1..Len(usage) :
     HasOnline(usage[i]) => (Key(u, usage[i].rg) \in DOMAIN p.acct /\ p.acct[Key(u, usage[i].rg)].cost > 0)

RespObs == [status |-> Ev.result.status, ref |-> IF "ref" \in DOMAIN Ev.result THEN Ev.result.ref ELSE "",
            mui |-> ConvMui(Ev.result.mui)]

DivOf(exp, obs, resp) ==
  IF exp.st = obs /\ exp.resp.status = resp.status /\ exp.resp.mui = resp.mui /\ exp.resp.ref = resp.ref THEN {}
  ELSE {D([acct |-> exp.st.acct # obs.acct, lrsn |-> exp.st.lrsn # obs.lrsn,
           ue |-> exp.st.ue # obs.ue, cfg |-> exp.st.cfg # obs.cfg, status |-> <<exp.resp.status, resp.status>>,
           mui |-> exp.resp.mui # resp.mui, ref |-> exp.resp.ref # resp.ref])}

Reset ==
  /\ Ev.action = "reset"
  /\ pre' = ObsSt(Ev.state)
  /\ h' = HInit(ObsSt(Ev.state).acct)
  /\ meta' = [wb |-> Ev.args.wb, supis |-> Ev.args.supis, subs |-> Ev.args.subs, url |-> Ev.args.url, sink |-> Ev.args.sink]
  /\ UNCHANGED <<viol, div>>

StepCreate ==
  /\ Ev.action = "create"
  /\ LET obs  == ObsSt(Ev.state)
         resp == RespObs
         a    == [u |-> Ev.args.u, supi |-> meta.supis[Ev.args.u], sub |-> meta.subs[Ev.args.u], c |-> Ev.args.c,
                  onetime |-> Ev.args.onetime, usage |-> ConvUsage(Ev.args.usage), chid |-> Ev.args.chid,
                  pad |-> Ev.args.pad, notify |-> Ev.args.notify, plmn |-> Ev.args.plmn]
         exp  == Create(pre, a)
         h2   == HCreate(h, a, resp)
         ok   == resp.status = 201
         x    == Ev.state.ue[a.u]
         newr == IF ok /\ x.known /\ Len(x.recs) > 0 THEN x.recs[Len(x.recs)] ELSE [optime |-> <<>>]
         contract == /\ ok
                     /\ Ev.result.location = meta.url \o "/nchf-convergedcharging/v3/chargingdata/" \o resp.ref
                     /\ (a.onetime \/ resp.ref # "")       \* (an event is answered under the collection itself)
                     /\ (a.onetime \/ RefFresh(h, resp.ref))   \* "the NEW session reference": not that of a session still open
                     /\ Ev.result.seq = Ev.args.isn
     IN /\ pre' = obs /\ h' = h2
        /\ viol' = viol \cup StateClauses(obs, h2) \cup FileClausesAt(Ev.state, <<1, 0>>, TRUE)
              \cup (IF ok /\ ~RefFresh(h, resp.ref) THEN {V("C10", "ref_unique", [same_subscriber |-> h.sess[resp.ref].u = a.u])} ELSE {})
              \cup (IF contract THEN {} ELSE {V("C12", "create_contract", [status |-> resp.status])})
              \cup (IF ok /\ ~(\E i \in 1..Len(Ev.args.times) : OpTimeOK(newr.optime, Ev.args.times[i], Ev.args.tz))
                      THEN {V("C02", "opening_time", [tz |-> Ev.args.tz])} ELSE {})
        /\ div' = div \cup (IF pre.lrsn < 0 THEN {} ELSE DivOf(exp, obs, resp))     \* (counter beyond TLC's integers: no prediction)
  /\ UNCHANGED meta

\* a create with malformed content: refused with a 4xx, and the CHF's state (subscriber pool, registered notification
\* URI, records, counters, accounts) is what it was
StepBadCreate ==
  /\ Ev.action = "badcreate"
  /\ LET obs == ObsSt(Ev.state)
         st4 == Ev.result.status >= 400 /\ Ev.result.status < 500
     IN /\ pre' = obs /\ h' = h
        /\ viol' = viol \cup StateClauses(obs, h)
              \cup (IF st4 THEN {} ELSE {V("C12", "malformed_create_rejected", [kind |-> Ev.args.kind, status |-> Ev.result.status])})
              \cup (IF st4 /\ (obs # pre \/ Ev.filechg # <<>>) THEN {V("C12", "rejection_no_effect", [kind |-> Ev.args.kind, what |-> "create"])} ELSE {})
        /\ div' = div
  /\ UNCHANGED meta

StepUpdate ==
  /\ Ev.action = "update"
  /\ LET obs  == ObsSt(Ev.state)
         resp == RespObs
         u    == Ev.args.u
         grew == u \in DOMAIN obs.ue /\ u \in DOMAIN pre.ue /\ Len(obs.ue[u].recs) > Len(pre.ue[u].recs)
         a    == [u |-> u, ref |-> Ev.args.ref, usage |-> ConvUsage(Ev.args.usage), trig |-> Ev.args.trig, split |-> grew,
                  fault |-> Ev.args.fault]
         known == RefKnownH(u, a.ref)
         ok   == resp.status = 200
         \* an update answered 200 although no create ever returned its reference: the CHF now serves a session under that
         \* reference, and it counts as one that has not been released (C10)
         adopted == [u |-> u, chid |-> -1, consumer |-> "", sub |-> "", plmn |-> "", live |-> TRUE, ids |-> <<>>]
         h2   == IF known THEN HUpdate(h, a, resp)
                 ELSE IF ok /\ a.ref \notin DOMAIN h.sess THEN [h EXCEPT !.sess = Upd(h.sess, a.ref, adopted)] ELSE h
         partial == ok /\ Len(a.trig) > 0 /\ a.trig[Len(a.trig)] # "final" /\ \E i \in 1..Len(a.usage) : HasOnline(a.usage[i])
         contract == ok /\ Ev.result.seq = Ev.args.isn /\ Ev.result.hasTs
     IN /\ pre' = obs /\ h' = h2
        /\ viol' = viol \cup StateClauses(obs, h2) \cup FileClausesAt(Ev.state, <<Ev.args.lsnLo, Ev.args.lsnHi>>, FALSE)
              \cup (IF ok THEN GAClauses(pre, u, a.usage, resp.mui, a.trig, 1) ELSE {})
              \cup (IF known /\ ~contract THEN {V("C12", "update_contract", [status |-> resp.status])} ELSE {})
              \cup (IF known /\ ~ok THEN {V("C10", "ref_designates", [lost |-> TRUE, rejected |-> resp.status])} ELSE {})
              \cup (IF ~known /\ ~(resp.status >= 400 /\ resp.status <= 499)
                      THEN {V("C12", "unknown_is_4xx", [status |-> resp.status, stale |-> a.ref \in DOMAIN h.sess])} ELSE {})
              \cup (IF ~known /\ obs # pre
                      THEN {V("C12", "rejection_no_effect", [status |-> resp.status, acct |-> obs.acct # pre.acct,
                                                            stale |-> a.ref \in DOMAIN h.sess])} ELSE {})
              \cup (IF ~known /\ Ev.filechg # <<>>      \* (the subscriber's CDR file is part of "no record change")
                      THEN {V("C12", "rejection_no_effect", [status |-> resp.status, acct |-> FALSE, stale |-> a.ref \in DOMAIN h.sess, file |-> TRUE])} ELSE {})
              \cup (IF known /\ ok /\ UKnown(u) /\ ~Oversize(u) /\ ~FileHoldsAll(u)
                      THEN {V("C02", "file_matches_records", [after |-> "update", split |-> grew])} ELSE {})
              \cup (IF known /\ partial /\ ~(u \in DOMAIN obs.ue /\ \E i \in 1..Len(obs.ue[u].recs) :
                                               obs.ue[u].recs[i].ref = a.ref /\ obs.ue[u].recs[i].cause = 1)
                      THEN {V("C02", "cause_partial", [split |-> grew])} ELSE {})
        /\ div' = div \cup (IF Explainable(pre, u, a.usage) THEN DivOf(Update(pre, a), obs, resp) ELSE {D("unmodelled")})
  /\ UNCHANGED meta

StepRelease ==
  /\ Ev.action = "release"
  /\ LET obs  == ObsSt(Ev.state)
         resp == RespObs
         u    == Ev.args.u
         grew == u \in DOMAIN obs.ue /\ u \in DOMAIN pre.ue /\ Len(obs.ue[u].recs) > Len(pre.ue[u].recs)
         a    == [u |-> u, ref |-> Ev.args.ref, usage |-> ConvUsage(Ev.args.usage), trig |-> Ev.args.trig, split |-> grew]
         known == RefKnownH(u, a.ref)
         \* the release is "done" when it was answered 2xx -- or, as the code stands, when the record was closed
         acted == known /\ (resp.status = 204 \/ (resp.status = 400 /\ DEV_Release400))
         h2   == IF acted THEN HRelease(h, a, [resp EXCEPT !.status = 204], 204) ELSE h
     IN /\ pre' = obs /\ h' = h2
        /\ viol' = viol \cup StateClauses(obs, h2) \cup FileClausesAt(Ev.state, <<Ev.args.lsnLo, Ev.args.lsnHi>>, FALSE)
              \cup (IF known /\ ~(resp.status = 204 /\ Ev.result.bodyEmpty)
                      THEN {V("C12", "release_contract", [status |-> resp.status])} ELSE {})
              \cup (IF known /\ ~acted THEN {V("C10", "ref_designates", [lost |-> TRUE, rejected |-> resp.status])} ELSE {})
              \cup (IF ~known /\ ~(resp.status >= 400 /\ resp.status <= 499)
                      THEN {V("C12", "unknown_is_4xx", [status |-> resp.status, stale |-> a.ref \in DOMAIN h.sess])} ELSE {})
              \cup (IF ~known /\ obs # pre
                      THEN {V("C12", "rejection_no_effect", [status |-> resp.status, acct |-> obs.acct # pre.acct,
                                                            stale |-> a.ref \in DOMAIN h.sess])} ELSE {})
              \cup (IF ~known /\ Ev.filechg # <<>>
                      THEN {V("C12", "rejection_no_effect", [status |-> resp.status, acct |-> FALSE, stale |-> a.ref \in DOMAIN h.sess, file |-> TRUE])} ELSE {})
              \cup (IF known /\ resp.status = 204 /\ UKnown(u) /\ ~Oversize(u) /\ ~FileHoldsReleased(u, a.ref)
                      THEN {V("C02", "file_matches_records", [after |-> "release", split |-> grew])} ELSE {})
              \cup (IF acted /\ ~(u \in DOMAIN obs.ue /\
                                 LET is == {i \in 1..Len(obs.ue[u].recs) : obs.ue[u].recs[i].ref = a.ref}
                                 IN is # {} /\ obs.ue[u].recs[CHOOSE i \in is : \A j \in is : j <= i].cause = 0)
                      THEN {V("C02", "cause_normal", [split |-> grew])} ELSE {})
        /\ div' = div \cup (IF Explainable(pre, u, a.usage) THEN DivOf(Release(pre, a), obs, resp) ELSE {D("unmodelled")})
  /\ UNCHANGED meta

StepRecharge ==
  /\ Ev.action = "recharge"
  /\ LET obs  == ObsSt(Ev.state)
         resp == RespObs
         a    == [u |-> Ev.args.u, rg |-> Ev.args.rg]
         exp  == Recharge(pre, a)
         known == a.u \in DOMAIN pre.ue
         nts  == Ev.result.notifs
     IN /\ pre' = obs /\ h' = h
        /\ viol' = viol \cup StateClauses(obs, h)
              \cup (IF known /\ ~(resp.status = 204 /\ Len(nts) = 1 /\ nts[1].rgs = <<a.rg>>
                                  /\ pre.ue[a.u].notify = meta.sink \o nts[1].path)
                      THEN {V("C12", "recharge_contract", [status |-> resp.status, n |-> Len(nts)])} ELSE {})
              \cup (IF ~known /\ Len(nts) # 0 THEN {V("C12", "recharge_unknown_notifies", [n |-> Len(nts)])} ELSE {})
        /\ div' = div \cup DivOf([st |-> exp.st, resp |-> exp.resp], obs, resp)
  /\ UNCHANGED meta

\* the environment advances the record counter to just below 2^32 (all the records the CHF opened meanwhile): beyond TLC's
\* integers -- the projection shows a sentinel and the refinement layer rests until the next reset; the clauses go on
StepJump ==
  /\ Ev.action = "jump"
  /\ pre' = ObsSt(Ev.state) /\ h' = h
  /\ viol' = viol \cup StateClauses(ObsSt(Ev.state), h)
  /\ div' = div
  /\ UNCHANGED meta

StepTopUp ==
  /\ Ev.action = "topup"
  /\ LET obs == ObsSt(Ev.state)
         a   == [u |-> Ev.args.u, rg |-> Ev.args.rg, amt |-> Ev.args.amt]
         h2  == IF Key(a.u, a.rg) \in DOMAIN h.credited THEN HTopUp(h, a) ELSE h
     IN /\ pre' = obs /\ h' = h2
        /\ viol' = viol \cup StateClauses(obs, h2)
        /\ div' = div
  /\ UNCHANGED meta

Finish ==
  /\ l = Len(Trace) + 1
  /\ PrintT(<<"VF-RESULT", ToJson([consumed |-> l - 1, viol |-> viol, div |-> div])>>)
  /\ l' = l + 1
  /\ UNCHANGED <<pre, h, viol, div, meta>>

TInit == /\ l = 1 /\ viol = {} /\ div = {}
         /\ pre = [acct |-> EmptyFn, ue |-> EmptyFn, lrsn |-> 0, cfg |-> DefaultCfg]
         /\ h = HInit(EmptyFn)
         /\ meta = [wb |-> FALSE, supis |-> EmptyFn, subs |-> EmptyFn, url |-> "", sink |-> ""]

TNext == \/ (l <= Len(Trace) /\ l' = l + 1 /\
               (Reset \/ StepCreate \/ StepBadCreate \/ StepUpdate \/ StepRelease \/ StepRecharge \/ StepTopUp \/ StepJump))
         \/ Finish
TSpec == TInit /\ [][TNext]_tvars
=============================================================================
