------------------------------ MODULE DiamLink ------------------------------
(***************************************************************************)
(* The Diameter transport of ONE subscriber towards one peer (rating or    *)
(* account balance), as internal/abmf and internal/rating use go-diameter: *)
(*                                                                         *)
(*  request n :  Register handler on the subscriber's state-machine mux    *)
(*               (needs the mux WRITE lock)  ->  Dial a new connection     *)
(*               (+ serve and watchdog tasks)  ->  Send  ->  wait on the   *)
(*               subscriber's answer channel or time out  ->  (Close)      *)
(*  peer      :  answers request n promptly, late, or never                *)
(*  handler   :  an answer arriving on an open connection is served by     *)
(*               that connection's task UNDER THE MUX READ LOCK and handed *)
(*               to the answer channel                                     *)
(*                                                                         *)
(* Requests of one subscriber run one after the other (the subscriber lock  *)
(* serialises create / update / release); a recharge notification uses     *)
(* neither link, so it may be served at any time without a step here.      *)
(*                                                                         *)
(* DEV_* constants switch the as-is behaviour:                             *)
(*   DEV_ConnNeverClosed : the connection of a finished request stays open *)
(*   DEV_BlockingHandoff : unbuffered channel, the handler blocks until a  *)
(*                         receiver takes the answer (else: 1-slot buffer, *)
(*                         non-blocking hand-off, stale answers drained    *)
(*                         before a request is sent)                       *)
(***************************************************************************)
EXTENDS Integers, Sequences, FiniteSets, TLC, Json

CONSTANTS NReq, DEV_ConnNeverClosed, DEV_BlockingHandoff, EmitOneIn

Reqs == 1..NReq
VARIABLES pc,        \* pc[n] in {"idle","register","dial","send","wait","done"}; requests run one after the other
          result,    \* result[n] : 0 = none yet, -1 = timed out, k = used the answer to request k
          conns,     \* open connections (identified by the request that dialled them)
          owed,      \* requests the peer has received and not yet answered/dropped
          wire,      \* answers written by the peer and not yet picked up by the connection's task
          handler,   \* answers held by a serving task that has the mux read lock and waits to hand over
          buf,       \* content of the answer channel's buffer (sequence, capacity 1) -- unused when blocking
          tasks,     \* background tasks alive (2 per open connection: serve + watchdog)
          fate,      \* fate[n] in {"prompt","late_idle","late_during_next","drop"}: what the peer did with request n
          hist
vars == <<pc, result, conns, owed, wire, handler, buf, tasks, fate, hist>>

Cur == IF \E n \in Reqs : pc[n] \notin {"idle", "done"} THEN CHOOSE n \in Reqs : pc[n] \notin {"idle", "done"} ELSE 0
NextIdle == IF \E n \in Reqs : pc[n] = "idle" THEN CHOOSE n \in Reqs : pc[n] = "idle" /\ \A m \in Reqs : pc[m] = "idle" => n <= m ELSE 0

Init == /\ pc = [n \in Reqs |-> "idle"] /\ result = [n \in Reqs |-> 0] /\ conns = {} /\ owed = {} /\ wire = {}
        /\ handler = {} /\ buf = <<>> /\ tasks = 0 /\ fate = [n \in Reqs |-> "none"] /\ hist = <<>>

Start == /\ Cur = 0 /\ NextIdle # 0
         /\ pc' = [pc EXCEPT ![NextIdle] = "register"]
         /\ UNCHANGED <<result, conns, owed, wire, handler, buf, tasks, fate, hist>>
\* mux.Handle(...): write lock -- impossible while a serving task holds the read lock
Register(n) == /\ pc[n] = "register" /\ handler = {}
               /\ pc' = [pc EXCEPT ![n] = "dial"]
               /\ buf' = IF DEV_BlockingHandoff THEN buf ELSE <<>>        \* stale answers are drained
               /\ UNCHANGED <<result, conns, owed, wire, handler, tasks, fate, hist>>
Dial(n) == /\ pc[n] = "dial" /\ conns' = conns \cup {n} /\ tasks' = tasks + 2
           /\ pc' = [pc EXCEPT ![n] = "send"] /\ UNCHANGED <<result, owed, wire, handler, buf, fate, hist>>
Send(n) == /\ pc[n] = "send" /\ n \in conns /\ owed' = owed \cup {n} /\ pc' = [pc EXCEPT ![n] = "wait"]
           /\ UNCHANGED <<result, conns, wire, handler, buf, tasks, fate, hist>>
Finish(n, r) == /\ result' = [result EXCEPT ![n] = r] /\ pc' = [pc EXCEPT ![n] = "done"]
                /\ conns' = IF DEV_ConnNeverClosed THEN conns ELSE conns \ {n}
                /\ tasks' = IF DEV_ConnNeverClosed \/ n \notin conns THEN tasks ELSE tasks - 2
                /\ wire' = IF DEV_ConnNeverClosed THEN wire ELSE wire \ {n}   \* nothing is read from a closed connection
\* the requester takes an answer from the channel: from a blocked handler (rendezvous) or from the buffer
RecvRendezvous(n) == /\ DEV_BlockingHandoff /\ pc[n] = "wait" /\ \E k \in handler :
                          /\ handler' = handler \ {k} /\ Finish(n, k)
                          /\ hist' = Append(hist, [a |-> "recv", n |-> n, used |-> k])
                     /\ UNCHANGED <<owed, buf, fate>>
RecvBuffered(n) == /\ ~DEV_BlockingHandoff /\ pc[n] = "wait" /\ buf # <<>>
                   /\ buf' = <<>> /\ Finish(n, buf[1]) /\ hist' = Append(hist, [a |-> "recv", n |-> n, used |-> buf[1]])
                   /\ UNCHANGED <<owed, handler, fate>>
Timeout(n) == /\ pc[n] = "wait" /\ Finish(n, -1) /\ hist' = Append(hist, [a |-> "timeout", n |-> n])
              /\ UNCHANGED <<owed, handler, buf, fate>>
\* the request cannot be written: the peer has closed the connection after the capabilities exchange
SendFails(n) == /\ pc[n] = "send" /\ n \notin conns /\ Finish(n, -1) /\ hist' = Append(hist, [a |-> "sendfails", n |-> n])
                /\ UNCHANGED <<owed, handler, buf, fate>>
\* the peer
\* closes a connection of its own accord (right after the handshake, or while the request waits); the connection's
\* two tasks end with it.  (A handshake that merely completes late changes no state: Dial is simply taken later.)
PeerCloses(k) == /\ k \in conns /\ pc[k] \in {"send", "wait"}
                 /\ conns' = conns \ {k} /\ tasks' = tasks - 2 /\ wire' = wire \ {k}
                 /\ UNCHANGED <<pc, result, owed, handler, buf, fate, hist>>
PeerAnswer(k) == /\ k \in owed /\ owed' = owed \ {k}
                 /\ wire' = IF k \in conns THEN wire \cup {k} ELSE wire
                 /\ fate' = [fate EXCEPT ![k] = IF pc[k] = "wait" THEN "prompt"
                                                ELSE IF \E m \in Reqs : pc[m] = "wait" THEN "late_during_next" ELSE "late_idle"]
                 /\ UNCHANGED <<pc, result, conns, handler, buf, tasks, hist>>
PeerDrop(k) == /\ k \in owed /\ owed' = owed \ {k} /\ fate' = [fate EXCEPT ![k] = "drop"]
               /\ UNCHANGED <<pc, result, conns, wire, handler, buf, tasks, hist>>
\* the connection's serving task picks the answer up: read lock, then hand-off
Serve(k) == /\ k \in wire /\ wire' = wire \ {k}
            /\ IF DEV_BlockingHandoff
                 THEN handler' = handler \cup {k} /\ buf' = buf          \* blocks (holding the read lock) until received
                 ELSE handler' = handler /\ buf' = IF buf = <<>> THEN <<k>> ELSE buf   \* full buffer: discarded
            /\ UNCHANGED <<pc, result, conns, owed, tasks, fate, hist>>

Next == \/ Start \/ \E n \in Reqs : Register(n) \/ Dial(n) \/ Send(n) \/ SendFails(n) \/ RecvRendezvous(n) \/ RecvBuffered(n) \/ Timeout(n)
        \/ \E k \in Reqs : PeerAnswer(k) \/ PeerDrop(k) \/ PeerCloses(k) \/ Serve(k)
Spec == Init /\ [][Next]_vars
View == <<pc, result, conns, owed, wire, handler, buf, tasks, fate>>

-----------------------------------------------------------------------------
(* C19 *)
AnswerMatchesRequest == \A n \in Reqs : result[n] > 0 => result[n] = n
\* a request stuck at Register while a serving task holds the read lock and nobody can ever receive
Wedged == \E n \in Reqs : pc[n] = "register" /\ handler # {}
NoWedge == ~Wedged
(* C18 *)
ConnsBounded == Cardinality(conns) <= 1
TasksBounded == tasks <= 2
AllDone == \A n \in Reqs : pc[n] = "done"
Case == <<[fates |-> [n \in Reqs |-> fate[n]], results |-> [n \in Reqs |-> result[n]], steps |-> hist]>>
InvC19 == (AnswerMatchesRequest /\ NoWedge) \/ (PrintT(<<"VF-CEX", ToJson(Case)>>) /\ FALSE)
InvC18 == (ConnsBounded /\ TasksBounded) \/ (PrintT(<<"VF-CEX", ToJson(Case)>>) /\ FALSE)
\* one behaviour per distinct vector of peer fates, printed when every request is done (or the run is wedged)
EmitBehaviour == IF (AllDone' \/ Wedged') /\ ~(AllDone \/ Wedged) /\ RandomElement(1..EmitOneIn) = 1
                   THEN PrintT(<<"VF-BEH", ToJson(<<[fates |-> [n \in Reqs |-> fate'[n]], results |-> [n \in Reqs |-> result'[n]],
                                                      wedged |-> Wedged']>>)>>) ELSE TRUE
=============================================================================
