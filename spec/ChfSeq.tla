------------------------------- MODULE ChfSeq -------------------------------
(***************************************************************************)
(* The sequential CHF: every API call (create / update / release /         *)
(* recharge) and the environment's top-up is one atomic step.  The system  *)
(* state is ONE record `st` and every step is a pure operator              *)
(* `Op(st, args) -> [st, resp]`, so that exactly the same definitions are  *)
(* (a) explored by TLC from Init (ChfSeqMC), and (b) evaluated by TLC on   *)
(* states observed from the implementation (ChfSeqTrace).                  *)
(*                                                                         *)
(* Statement order follows internal/sbi/processor/converged_charging.go    *)
(* and cdr.go.  Behaviour the code has but the intended design would not   *)
(* is switched by the DEV_* constants ("deviation of the as-is code").     *)
(***************************************************************************)
EXTENDS Integers, Sequences, FiniteSets, TLC

CONSTANTS
  DEV_GrantFromRequest,   \* TRUE: Monetary-Quota = requested quota, reserve only when exhausted
  DEV_LastRecordOverride, \* TRUE: with >1 records the update goes to the newest record of the subscriber
  DEV_CCBeforeLookup,     \* TRUE: credit control is performed before the session record is looked up
  DEV_Release400,         \* TRUE: a successful release is answered 400
  DEV_RefConcat,          \* TRUE: reference = supi \o consumer \o counter (no separators)
  DEV_NoGuardOnRelease,   \* TRUE: only the update path splits an over-full record
  DEV_NilRequestedUnitPanics, \* TRUE: an online usage entry without requestedUnit panics in reserve mode
  DEV_KeepReleased        \* TRUE: a released session's reference stays in the subscriber's session map

Min(a, b) == IF a < b THEN a ELSE b
Max(a, b) == IF a > b THEN a ELSE b
Dom(f)    == DOMAIN f
Upd(f, k, v) == [x \in DOMAIN f \cup {k} |-> IF x = k THEN v ELSE f[x]]
Key(u, g) == u \o "|" \o g

RECURSIVE SumVol(_, _)
SumVol(cs, i) == IF i > Len(cs) THEN 0
                 ELSE (IF cs[i].m = "on" THEN cs[i].vol ELSE 0) + SumVol(cs, i + 1)
OnlineVol(us) == SumVol(us.conts, 1)
\* triggers of the answer for one usage entry: one QUOTA_THRESHOLD per offline container seen, then those of the branch
OfflineTrigs(us) == [i \in 1..Cardinality({j \in 1..Len(us.conts) : us.conts[j].m = "off"}) |-> "QUOTA_THRESHOLD"]
HasOnline(us) == \E i \in 1..Len(us.conts) : us.conts[i].m = "on"
RECURSIVE FlatIds(_, _)
FlatIds(usage, i) == IF i > Len(usage) THEN <<>>
                     ELSE [j \in 1..Len(usage[i].conts) |-> usage[i].conts[j].id] \o FlatIds(usage, i + 1)
Ids(usage) == FlatIds(usage, 1)
NConts(usage) == Len(Ids(usage))

-----------------------------------------------------------------------------
(* Subscriber context (ChfUe) and its rating-group slots *)
NewSlot == [rtype |-> "reserve", reserved |-> 0, ucost |-> 0, reqnum |-> 0]
\* `lim`: the operator's configuration (volumeLimit, volumeLimitPDU, quotaValidityTime, volumeThresholdRate as th/1024) is
\* copied into the subscriber context when it is created (ChfUe.init) and decides which triggers accompany a grant
NewUe(n, cfg) == [rg |-> <<>>, notify |-> n, recs |-> <<>>, cdr |-> <<>>,
                  lim |-> [vl |-> cfg.vl, vlp |-> cfg.vlp, qvt |-> cfg.qvt, th |-> cfg.th]]
DefaultCfg == [vl |-> 0, vlp |-> 0, qvt |-> 0, th |-> 512, mqcap |-> 0]
\* `mqcap`: 2^32 in the behaviour's unit of money (0: out of reach).  The Monetary-Quota, Price and Allowed-Units AVPs of
\* the rating interface are 32 bits wide: the CHF rates a larger quota as the largest one the AVP carries, and a price
\* beyond it comes back reduced modulo 2^32 (as-is; C01's domain ends there)
\* what the reserve branch adds to a grant, in the order of the code: the subscriber's volume limit (deferred report), the PDU
\* session's volume limit (immediate report; only with the FIRST usage entry of the request), the quota validity time
LimitTrigs(lim, first) ==
  (IF lim.vl # 0 THEN <<"VOLUME_LIMIT:DEFERRED_REPORT:" \o ToString(lim.vl)>> ELSE <<>>)
  \o (IF lim.vlp # 0 /\ first THEN <<"VOLUME_LIMIT:IMMEDIATE_REPORT:" \o ToString(lim.vlp)>> ELSE <<>>)
  \o (IF lim.qvt # 0 THEN <<"VALIDITY_TIME">> ELSE <<>>)
HasOffline(us) == \E i \in 1..Len(us.conts) : us.conts[i].m = "off"
OfflineThreshold == 30000000
EmptyFn == <<>>   \* the function with empty domain

-----------------------------------------------------------------------------
(* pkg/abmf handleCCR and pkg/rf handleSUR as the CHF uses them            *)
(* (these are the same operators Abmf.tla / Rating.tla check on their own) *)
AbmfReserve(q, ask) == IF ask > q THEN [quota |-> q - q, granted |-> q, fui |-> TRUE]
                                  ELSE [quota |-> q - ask, granted |-> ask, fui |-> FALSE]
AbmfRefund(q, amt)  == q + amt
AbmfTermDebit(q, amt) == q - amt
RateReserveAllowed(mq, cost, cap) == IF cap > 0 /\ mq >= cap THEN (cap - 1) \div cost ELSE mq \div cost
RateDebitPrice(used, cost, cap)   == IF cap > 0 THEN (used * cost) % cap ELSE used * cost

-----------------------------------------------------------------------------
(* sessionChargingReservation: one usage entry.                            *)
(* S = [st, mui, partial]; returns the same shape.                         *)
\* flt = "abmf": the account balance function cannot be reached while this request is served (dial fails): the entry is
\* dropped from the answer at the point where the account request would have been sent; what was done before stays
CCEntry(S, u, us, trig, flt, first) ==
  LET st   == S.st
      ue0  == st.ue[u]
      g    == us.rg
      ue1  == IF g \in Dom(ue0.rg) THEN ue0 ELSE [ue0 EXCEPT !.rg = Upd(ue0.rg, g, NewSlot)]
      online == HasOnline(us)
      final  == \E i \in 1..Len(trig) : trig[i] = "final"
      part   == IF online /\ Len(trig) > 0 THEN trig[Len(trig)] # "final" ELSE S.partial
      slot0  == ue1.rg[g]
      slot1  == IF online /\ final THEN [slot0 EXCEPT !.rtype = "debit"] ELSE slot0
      used   == OnlineVol(us)
      k      == Key(u, g)
      acc    == st.acct[k]
      cost   == acc.cost
  IN
  IF S.panic THEN S
  ELSE IF ~online
    THEN [st |-> [st EXCEPT !.ue[u] = ue1], mui |-> S.mui, partial |-> part, panic |-> FALSE]
  ELSE IF slot1.rtype = "reserve" /\ us.req < 0 /\ DEV_NilRequestedUnitPanics
    \* unitUsage.RequestedUnit is dereferenced unconditionally in the reserve branch: nil -> panic
    THEN [st |-> [st EXCEPT !.ue[u] = [ue1 EXCEPT !.rg[g] = [slot1 EXCEPT !.ucost = cost]]],
          mui |-> S.mui, partial |-> part, panic |-> TRUE]
  ELSE IF slot1.rtype = "reserve" THEN
    LET reqV  == Max(us.req, 0)            \* requestedUnit absent: nothing is asked for
        usedQ == used * cost
        reqQ  == reqV * cost
        r1    == slot1.reserved - usedQ
        need  == IF DEV_GrantFromRequest THEN ~(r1 > 0) ELSE r1 < reqQ
        ask   == IF DEV_GrantFromRequest THEN (0 - r1) + reqQ ELSE reqQ - r1
        ab    == IF need THEN AbmfReserve(acc.quota, ask) ELSE [quota |-> acc.quota, granted |-> 0, fui |-> FALSE]
        r2    == r1 + ab.granted
        mq    == IF DEV_GrantFromRequest THEN reqQ ELSE Min(reqQ, Max(r2, 0))
        grant == Min(RateReserveAllowed(mq, cost, st.cfg.mqcap), reqV)
        slot2 == [slot1 EXCEPT !.reserved = r2, !.ucost = cost, !.reqnum = @ + 1,
                               !.rtype = IF ab.fui THEN "debit" ELSE @]
        info  == [rg |-> g, granted |-> grant, fui |-> ab.fui,
                  trig |-> OfflineTrigs(us) \o (IF ab.fui THEN <<>> ELSE <<"QUOTA_THRESHOLD">>) \o <<"QUOTA_EXHAUSTED">>
                           \o LimitTrigs(ue1.lim, first),
                  vt   |-> ue1.lim.qvt,
                  \* threshold of the grant while the rating group stays in reserve mode; otherwise what an offline container left
                  thr  |-> IF ~ab.fui THEN (grant * ue1.lim.th) \div 1024 ELSE IF HasOffline(us) THEN OfflineThreshold ELSE 0]
    IN IF need /\ flt = "abmf"
         \* the reported usage has been taken off the reservation; no money moved, no answer for this rating group
         THEN [st |-> [st EXCEPT !.ue[u] = [ue1 EXCEPT !.rg[g] = [slot1 EXCEPT !.reserved = r1, !.ucost = cost]]],
               mui |-> S.mui, partial |-> part, panic |-> FALSE]
       ELSE
       [st |-> [st EXCEPT !.ue[u] = [ue1 EXCEPT !.rg[g] = slot2], !.acct[k].quota = ab.quota],
        mui |-> Append(S.mui, info), partial |-> part, panic |-> FALSE]
  ELSE \* debit mode
    LET price == RateDebitPrice(used, cost, st.cfg.mqcap)
        refund == price < slot1.reserved
        q2    == IF refund THEN AbmfRefund(acc.quota, slot1.reserved - price)
                           ELSE AbmfTermDebit(acc.quota, price - slot1.reserved)
        slot2 == [slot1 EXCEPT !.reserved = 0, !.reqnum = @ + 1,
                               !.rtype = IF refund THEN "reserve" ELSE "debit"]
        info  == [rg |-> g, granted |-> 0, fui |-> FALSE, trig |-> OfflineTrigs(us) \o <<"QUOTA_EXHAUSTED">>,
                  vt |-> 0, thr |-> IF HasOffline(us) THEN OfflineThreshold ELSE 0]
    IN IF flt = "abmf"
         \* neither refund nor final debit happened: the reservation stays (a refund had already switched the mode back)
         THEN [st |-> [st EXCEPT !.ue[u] = [ue1 EXCEPT !.rg[g] = [slot1 EXCEPT !.rtype = IF refund THEN "reserve" ELSE "debit"]]],
               mui |-> S.mui, partial |-> part, panic |-> FALSE]
       ELSE
       [st |-> [st EXCEPT !.ue[u] = [ue1 EXCEPT !.rg[g] = slot2], !.acct[k].quota = q2],
        mui |-> Append(S.mui, info), partial |-> part, panic |-> FALSE]

RECURSIVE CCFold(_, _, _, _, _, _)
CCFold(S, u, usage, trig, flt, i) ==
  IF i > Len(usage) THEN S ELSE CCFold(CCEntry(S, u, usage[i], trig, flt, i = 1), u, usage, trig, flt, i + 1)
CC(st, u, usage, trig, flt) == CCFold([st |-> st, mui |-> <<>>, partial |-> FALSE, panic |-> FALSE], u, usage, trig, flt, 1)
FaultOf(a) == IF "fault" \in DOMAIN a THEN a.fault ELSE "none"

-----------------------------------------------------------------------------
(* Records *)
RefOf(supi, consumer, n) ==
  IF DEV_RefConcat THEN supi \o consumer \o ToString(n)
                   ELSE supi \o "-" \o consumer \o "-" \o ToString(n)

\* (`plmn`: the consumer's PLMN "mcc/mnc", "" when the create names none)
NewRec(ref, n, chid, consumer, subscriber, pad, plmn) ==
  [ref |-> ref, lrsn |-> n, chid |-> chid, consumer |-> consumer, subscriber |-> subscriber,
   cause |-> 0, rsn |-> -1, conts |-> <<>>, pad |-> pad, plmn |-> plmn]
PlmnOf(a) == IF "plmn" \in DOMAIN a THEN a.plmn ELSE ""

(* create: a = [u, supi, c, onetime, usage, chid, pad, notify]  *)
Create(st, a) ==
  LET u    == a.u
      ue0  == IF u \in Dom(st.ue) THEN st.ue[u] ELSE NewUe("", st.cfg)
      ue1  == [ue0 EXCEPT !.notify = a.notify]
      ref  == IF a.onetime THEN "" ELSE RefOf(a.supi, a.c, st.lrsn)
      n    == st.lrsn + 1
      rec  == [NewRec(ref, n, a.chid, a.c, a.sub, a.pad, PlmnOf(a)) EXCEPT !.conts = Ids(a.usage)]
      recs == Append(ue1.recs, rec)
      ue2  == [ue1 EXCEPT !.recs = recs, !.cdr = Upd(ue1.cdr, ref, Len(recs))]
  IN [st |-> [st EXCEPT !.ue = Upd(st.ue, u, ue2), !.lrsn = n],
      resp |-> [status |-> 201, ref |-> ref, mui |-> <<>>]]

(* update: a = [u, ref, usage, trig, split]; `split` is the size guard's decision *)
Update(st, a) ==
  IF a.u \notin Dom(st.ue) THEN [st |-> st, resp |-> [status |-> 400, ref |-> "", mui |-> <<>>]]
  ELSE
  LET ue0   == st.ue[a.u]
      known == a.ref \in Dom(ue0.cdr)
      over  == DEV_LastRecordOverride /\ Len(ue0.recs) > 1
      found == known \/ over
  IN
  IF ~found /\ ~DEV_CCBeforeLookup THEN [st |-> st, resp |-> [status |-> 404, ref |-> "", mui |-> <<>>]]
  ELSE
  LET S     == CC(st, a.u, a.usage, a.trig, FaultOf(a))
      ue1   == S.st.ue[a.u]
  IN
  IF S.panic THEN [st |-> S.st, resp |-> [status |-> 500, ref |-> "", mui |-> <<>>]]
  ELSE IF ~found THEN [st |-> S.st, resp |-> [status |-> 400, ref |-> "", mui |-> <<>>]]
  ELSE
  LET idx0  == IF over THEN Len(ue1.recs) ELSE ue1.cdr[a.ref]
      old   == ue1.recs[idx0]
      recsS == IF a.split THEN Append(ue1.recs, [old EXCEPT !.conts = <<>>]) ELSE ue1.recs
      idx   == IF a.split THEN Len(recsS) ELSE idx0
      cdrS  == IF a.split /\ ~DEV_LastRecordOverride THEN Upd(ue1.cdr, a.ref, idx) ELSE ue1.cdr
      rec1  == [recsS[idx] EXCEPT !.conts = @ \o Ids(a.usage)]
      \* partial closure: CloseCDR(partial) then OpenCDR(partial) on ue.Cdr[ref]
      rec2  == IF S.partial THEN [rec1 EXCEPT !.cause = 1] ELSE rec1
      recs2 == [recsS EXCEPT ![idx] = rec2]
      recs3 == IF S.partial /\ known
                 THEN [recs2 EXCEPT ![cdrS[a.ref]] = [@ EXCEPT !.rsn = 1]] ELSE recs2
      ue2   == [ue1 EXCEPT !.recs = recs3, !.cdr = cdrS]
  IN [st |-> [S.st EXCEPT !.ue[a.u] = ue2],
      resp |-> [status |-> 200, ref |-> "", mui |-> S.mui]]

(* release: a = [u, ref, usage, trig, split] *)
Release(st, a) ==
  IF a.u \notin Dom(st.ue) THEN [st |-> st, resp |-> [status |-> 400, ref |-> "", mui |-> <<>>]]
  ELSE
  LET ue0   == st.ue[a.u]
      known == a.ref \in Dom(ue0.cdr)
  IN
  IF ~known /\ ~DEV_CCBeforeLookup THEN [st |-> st, resp |-> [status |-> 404, ref |-> "", mui |-> <<>>]]
  ELSE
  LET S   == CC(st, a.u, a.usage, a.trig, FaultOf(a))
      ue1 == S.st.ue[a.u]
  IN
  IF S.panic THEN [st |-> S.st, resp |-> [status |-> 500, ref |-> "", mui |-> <<>>]]
  ELSE IF ~known THEN [st |-> S.st, resp |-> [status |-> 400, ref |-> "", mui |-> <<>>]]
  ELSE
  LET idx0 == ue1.cdr[a.ref]
      sp   == a.split /\ ~DEV_NoGuardOnRelease
      recsS == IF sp THEN Append(ue1.recs, [ue1.recs[idx0] EXCEPT !.conts = <<>>]) ELSE ue1.recs
      idx  == IF sp THEN Len(recsS) ELSE idx0
      rec1 == [recsS[idx] EXCEPT !.conts = @ \o Ids(a.usage), !.cause = 0]
      cdr1 == IF sp THEN Upd(ue1.cdr, a.ref, idx) ELSE ue1.cdr
      cdr2 == IF DEV_KeepReleased THEN cdr1 ELSE [r \in Dom(cdr1) \ {a.ref} |-> cdr1[r]]
      ue2  == [ue1 EXCEPT !.recs = [recsS EXCEPT ![idx] = rec1], !.cdr = cdr2]
  IN [st |-> [S.st EXCEPT !.ue[a.u] = ue2],
      resp |-> [status |-> IF DEV_Release400 THEN 400 ELSE 204, ref |-> "", mui |-> <<>>]]

(* recharge notification: a = [u, rg] *)
Recharge(st, a) ==
  IF a.u \notin Dom(st.ue) THEN [st |-> st, resp |-> [status |-> 204, ref |-> "", mui |-> <<>>], notif |-> <<>>]
  ELSE
  LET ue0 == st.ue[a.u]
      sl  == IF a.rg \in Dom(ue0.rg) THEN [ue0.rg[a.rg] EXCEPT !.rtype = "reserve"]
                                      ELSE [NewSlot EXCEPT !.rtype = "reserve"]
      \* the map write creates the entry but the rating group is not added to RatingGroups;
      \* the projection shows it as a slot, the next CC re-initialises it (same values)
      ue1 == [ue0 EXCEPT !.rg = Upd(ue0.rg, a.rg, sl)]
  IN [st |-> [st EXCEPT !.ue[a.u] = ue1],
      resp |-> [status |-> 204, ref |-> "", mui |-> <<>>],
      notif |-> << [uri |-> ue0.notify, rg |-> a.rg] >>]

TopUp(st, a) == [st |-> [st EXCEPT !.acct[Key(a.u, a.rg)].quota = @ + a.amt],
                 resp |-> [status |-> 0, ref |-> "", mui |-> <<>>]]

-----------------------------------------------------------------------------
(* History (what the properties quantify over) -- advanced from INPUTS and *)
(* answers only.  h = [credited, used, reported, sess, lastGrant]          *)
(*   credited[k], used[k]   : money ever credited / online units reported  *)
(*   sess[ref] = [u, chid, consumer, sub, live, ids]                       *)
(*   lastGrant[k]                                                          *)
RECURSIVE AddUsed(_, _, _, _)
AddUsed(used, u, usage, i) ==
  IF i > Len(usage) THEN used
  ELSE LET k == Key(u, usage[i].rg)
           v == OnlineVol(usage[i])
       IN AddUsed(IF k \in Dom(used) THEN [used EXCEPT ![k] = @ + v] ELSE used, u, usage, i + 1)

RECURSIVE SetGrants(_, _, _, _, _)
SetGrants(lg, u, usage, mui, i) ==
  IF i > Len(usage) THEN lg
  ELSE LET k == Key(u, usage[i].rg)
           js == {j \in 1..Len(mui) : mui[j].rg = usage[i].rg}
           gs == {mui[j].granted : j \in js}
           g == IF gs = {} THEN 0 ELSE CHOOSE x \in gs : \A y \in gs : y <= x
           f == \E j \in js : mui[j].fui
       IN SetGrants(Upd(lg, k, [g |-> Max(g, 0), fui |-> f]), u, usage, mui, i + 1)

HInit(acct) == [credited |-> [k \in Dom(acct) |-> acct[k].quota],
                used |-> [k \in Dom(acct) |-> 0],
                sess |-> EmptyFn, lastGrant |-> EmptyFn]

HCreate(h, a, resp) ==
  IF resp.status = 201 /\ ~a.onetime
    THEN [h EXCEPT !.sess = Upd(h.sess, resp.ref,
            [u |-> a.u, chid |-> a.chid, consumer |-> a.c, sub |-> a.sub, plmn |-> PlmnOf(a), live |-> TRUE, ids |-> Ids(a.usage)])]
    ELSE h
HUpdate(h, a, resp) ==
  IF resp.status = 200
    THEN [h EXCEPT !.used = AddUsed(h.used, a.u, a.usage, 1),
                   !.lastGrant = SetGrants(h.lastGrant, a.u, a.usage, resp.mui, 1),
                   !.sess = IF a.ref \in Dom(h.sess) /\ h.sess[a.ref].u = a.u
                              THEN [@ EXCEPT ![a.ref].ids = @ \o Ids(a.usage)] ELSE @]
    ELSE h
HRelease(h, a, resp, okStatus) ==
  IF resp.status = okStatus
    THEN [h EXCEPT !.used = AddUsed(h.used, a.u, a.usage, 1),
                   !.lastGrant = SetGrants(h.lastGrant, a.u, a.usage, <<>>, 1),
                   !.sess = IF a.ref \in Dom(h.sess) /\ h.sess[a.ref].u = a.u
                              THEN [@ EXCEPT ![a.ref].ids = @ \o Ids(a.usage), ![a.ref].live = FALSE] ELSE @]
    ELSE h
HTopUp(h, a) == [h EXCEPT !.credited[Key(a.u, a.rg)] = @ + a.amt]

-----------------------------------------------------------------------------
(* Property formulas over (st, h) -- evaluated both on model states and on *)
(* observed implementation states                                          *)
Reserved(st, u, g) ==
  IF u \in Dom(st.ue) /\ g \in Dom(st.ue[u].rg) THEN st.ue[u].rg[g].reserved ELSE 0

\* C01
ConservationAt(st, h, u, g) ==
  LET k == Key(u, g) IN
  st.acct[k].quota + Reserved(st, u, g) = h.credited[k] - st.acct[k].cost * h.used[k]

\* C06 (a): the balance of a well-behaved consumer's subscriber never goes negative
NoOverdraftAt(st, k) == st.acct[k].quota >= 0

\* C06 (b): per answered usage entry.  `pre` is the state before the step, `h` the history before the step.
\* "The money still available for a rating group (account balance plus unconsumed reservation)" is computed from the
\* HISTORY -- money ever credited minus the rated price of all usage reported including this entry's -- and not from
\* the reservation the implementation believes it holds: a CHF that forgets to consume its reservation must not
\* be judged by its own books.  (With C01 both are equal.)
Avail(pre, h, u, us) ==
  LET k == Key(u, us.rg)
  IN Max(h.credited[k] - pre.acct[k].cost * (h.used[k] + OnlineVol(us)), 0)
Short(pre, h, u, us) == Avail(pre, h, u, us) \div pre.acct[Key(u, us.rg)].cost < us.req
GrantWithin(pre, h, u, us, info) ==
  Short(pre, h, u, us) => info.granted <= Avail(pre, h, u, us) \div pre.acct[Key(u, us.rg)].cost
GrantFui(pre, h, u, us, info) == Short(pre, h, u, us) => info.fui
GrantAffordable(pre, h, u, us, info) == GrantWithin(pre, h, u, us, info) /\ GrantFui(pre, h, u, us, info)
\* the entry is processed by the debit branch: the rating group is in debit mode or the request carries a FINAL trigger
DebitMode(pre, u, g, trig) ==
  (\E i \in 1..Len(trig) : trig[i] = "final")
  \/ (u \in DOMAIN pre.ue /\ g \in DOMAIN pre.ue[u].rg /\ pre.ue[u].rg[g].rtype = "debit")

\* C02: records of one session, in order of `recs`, carry exactly the reported containers
RECURSIVE ConcatConts(_, _, _)
ConcatConts(recs, ref, i) ==
  IF i > Len(recs) THEN <<>>
  ELSE (IF recs[i].ref = ref THEN recs[i].conts ELSE <<>>) \o ConcatConts(recs, ref, i + 1)
SessionConts(st, u, ref) == IF u \in Dom(st.ue) THEN ConcatConts(st.ue[u].recs, ref, 1) ELSE <<>>
ExactlyOnceAt(st, h, ref) == SessionConts(st, h.sess[ref].u, ref) = h.sess[ref].ids
RecordIdentityAt(st, h, ref) ==
  LET s == h.sess[ref] IN
  s.u \in Dom(st.ue) /\
  \A i \in 1..Len(st.ue[s.u].recs) :
     LET r == st.ue[s.u].recs[i] IN
     r.ref = ref => (r.chid = s.chid /\ r.consumer = s.consumer /\ r.subscriber = s.sub /\ r.plmn = s.plmn)

\* C10
RefFresh(h, ref) == ~(ref \in Dom(h.sess) /\ h.sess[ref].live)
=============================================================================
