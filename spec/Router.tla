------------------------------- MODULE Router -------------------------------
(***************************************************************************)
(* internal/sbi newRouter + gin's group/middleware mechanics (C13).        *)
(* Building the router is a sequence of steps per enabled service:         *)
(*    Group(prefix)  ->  Use(auth middleware)  ->  applyRoutes(routes)     *)
(* In gin a route's handler chain is the chain of its group AT THE TIME    *)
(* THE ROUTE IS REGISTERED, and a sub-group copies its parent's chain at   *)
(* the time it is created.  A request runs the chain in order; the auth    *)
(* middleware answers 401 and aborts unless the token verifies.            *)
(***************************************************************************)
EXTENDS Integers, Sequences, FiniteSets, TLC, Json

CONSTANTS ServiceLists,  \* set of sequences of service names (the serviceNameList to explore)
          TokenKinds,    \* e.g. {"absent","garbage","malformed","hs256","foreignkey","rs256","valid"}; forged tokens whose claims
                         \* carry an expiry of their own ("..._past", "..._zero", "..._future"); "retired" = signed by the NRF key
                         \* that was in force before the certificate at the configured path was rolled over (only "valid" --
                         \* signed by the key the path holds NOW -- authenticates)
          EmitOneIn

RoutesOf(svc) ==
  CASE svc = "nchf-convergedcharging" ->
         {<<"GET", "/">>, <<"POST", "/chargingdata/:ChargingDataRef/release">>,
          <<"POST", "/chargingdata/:ChargingDataRef/update">>, <<"POST", "/chargingdata">>,
          <<"GET", "/recharging">>, <<"PUT", "/recharging/:rechargingInfo">>}
    [] svc = "nchf-offlineonlycharging" ->
         {<<"GET", "/">>, <<"POST", "/offlinechargingdata/:OfflineChargingDataRef/release">>,
          <<"POST", "/offlinechargingdata/:OfflineChargingDataRef/update">>, <<"POST", "/offlinechargingdata">>}
    [] svc = "nchf-spendinglimitcontrol" ->
         {<<"GET", "/">>, <<"POST", "/subscriptions">>, <<"DELETE", "/subscriptions/:subscriptionId">>,
          <<"PUT", "/subscriptions/:subscriptionId">>}
    [] OTHER -> {}
Prefix(svc) ==
  CASE svc = "nchf-convergedcharging" -> "/nchf-convergedcharging/v3"
    [] svc = "nchf-offlineonlycharging" -> "/nchf-offlineonlycharging/v1"
    [] svc = "nchf-spendinglimitcontrol" -> "/nchf-spendinglimitcontrol/v1"
    [] OTHER -> ""

VARIABLES list, i, pc, chain, routes, probe
vars == <<list, i, pc, chain, routes, probe>>
\* chain : handler chain of the group being built;  routes : set of [method, path, chain]

Init == /\ list \in ServiceLists /\ i = 1 /\ pc = "group" /\ chain = <<>> /\ routes = {} /\ probe = <<>>
Group == /\ pc = "group" /\ i <= Len(list)
         /\ chain' = <<>>                       \* router.Group(prefix): the engine has no auth middleware of its own
         /\ pc' = IF RoutesOf(list[i]) = {} THEN "next" ELSE "use"
         /\ UNCHANGED <<list, i, routes, probe>>
Use == /\ pc = "use" /\ chain' = Append(chain, "auth") /\ pc' = "apply" /\ UNCHANGED <<list, i, routes, probe>>
Apply == /\ pc = "apply"
         /\ routes' = routes \cup {[method |-> r[1], path |-> Prefix(list[i]) \o r[2], chain |-> Append(chain, "handler")] : r \in RoutesOf(list[i])}
         /\ pc' = "next" /\ UNCHANGED <<list, i, chain, probe>>
NextSvc == /\ pc = "next" /\ i' = i + 1 /\ pc' = IF i + 1 > Len(list) THEN "serve" ELSE "group"
           /\ UNCHANGED <<list, chain, routes, probe>>
\* serving one request: run the chain.  (The sender may give up at any moment -- its connection is reset while the token is
\* still being checked: that is no step of the chain; the answer below is what the router does whoever still listens.)
Answer(r, tok) == IF \E k \in 1..Len(r.chain) : r.chain[k] = "auth" /\ tok # "valid" /\ \A j \in 1..(k - 1) : r.chain[j] # "handler"
                    THEN [status |-> 401, processed |-> FALSE] ELSE [status |-> 200, processed |-> TRUE]
Serve == /\ pc = "serve" /\ probe = <<>>
         /\ \E r \in routes, tok \in TokenKinds :
              probe' = <<[method |-> r.method, path |-> r.path, tok |-> tok, ans |-> Answer(r, tok)]>>
         /\ UNCHANGED <<list, i, pc, chain, routes>>
ServeNone == pc = "serve" /\ routes = {} /\ probe = <<>> /\ probe' = <<[method |-> "", path |-> "", tok |-> "", ans |-> [status |-> 404, processed |-> FALSE]]>>
             /\ UNCHANGED <<list, i, pc, chain, routes>>
Next == Group \/ Use \/ Apply \/ NextSvc \/ Serve
Spec == Init /\ [][Next]_vars
View == vars

AllRoutesProtected ==
  probe # <<>> /\ probe[1].tok # "valid" => (probe[1].ans.status = 401 /\ ~probe[1].ans.processed)
ValidPasses == probe # <<>> /\ probe[1].tok = "valid" => probe[1].ans.processed
\* one case per explored service list: the list and the route set the model predicts for it
EmitBehaviour == IF pc = "next" /\ pc' = "serve" /\ RandomElement(1..EmitOneIn) = 1
                   THEN PrintT(<<"VF-BEH", ToJson(<<[services |-> list,
                                                      routes |-> {[method |-> r.method, path |-> r.path] : r \in routes}]>>)>>)
                   ELSE TRUE
=============================================================================
