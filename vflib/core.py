"""Shared machinery of the verification runner: scratch copies of /repo, harness build,
TLC invocation, verdicts against known_findings.json, evidence files."""
import atexit
import hashlib
import json
import os
import re
import shutil
import subprocess
import sys
import time

VERIF = os.path.dirname(os.path.dirname(os.path.abspath(__file__)))
REPO = os.environ.get("VERIF_REPO", "/repo")
SPEC = os.path.join(VERIF, "spec")
OVERLAY = os.path.join(VERIF, "harness", "overlay")
EVID = os.path.join(VERIF, "evidence")
REPLAYS = os.path.join(VERIF, "replays")
NCPU = os.cpu_count() or 4

GOENV = dict(GOFLAGS="-mod=mod", GOPROXY="off", GOSUMDB="off", GOTOOLCHAIN="local")


class MachineryError(Exception):
    """Anything that prevents a verdict (build failure, TLC error, timeout): exit 2, never a VIOLATION."""


def seed():
    try:
        return int(os.environ.get("VERIF_SEED", "1"))
    except ValueError:
        return 1


def log(*a):
    print(*a, file=sys.stderr, flush=True)


class Scratch:
    """A private scratch directory outside /repo and /verif, removed (with its build output) at exit."""

    def __init__(self, tag):
        base = os.environ.get("VERIF_SCRATCH_BASE", "/var/tmp")
        self.dir = os.path.join(base, "vf.%s.%d" % (tag, os.getpid()))
        shutil.rmtree(self.dir, ignore_errors=True)
        os.makedirs(self.dir)
        atexit.register(self.cleanup)
        self.repo = os.path.join(self.dir, "repo")
        self.bins = {}
        self.tlcn = 0

    def cleanup(self):
        if os.environ.get("VF_KEEP"):
            log("scratch kept:", self.dir)
            return
        shutil.rmtree(self.dir, ignore_errors=True)

    def path(self, *p):
        return os.path.join(self.dir, *p)

    def copy_repo(self):
        """Copy /repo's CURRENT working tree and overlay the harness (new files only)."""
        if os.path.isdir(self.repo):
            return
        subprocess.run(["rsync", "-a", "--exclude", ".git", REPO + "/", self.repo + "/"], check=True)
        # the overlay must never replace a repository file
        for root, _, files in os.walk(OVERLAY):
            for f in files:
                rel = os.path.relpath(os.path.join(root, f), OVERLAY)
                if os.path.exists(os.path.join(self.repo, rel)):
                    raise MachineryError("overlay would replace repository file " + rel)
        subprocess.run(["rsync", "-a", OVERLAY + "/", self.repo + "/"], check=True)

    def build(self, race=False, pkg="./internal/verifharness/cmd/vfh", name="vfh"):
        key = (name, race)
        if key in self.bins:
            return self.bins[key]
        self.copy_repo()
        out = self.path(name + ("-race" if race else ""))
        cmd = ["go", "build", "-tags", "verif", "-trimpath", "-o", out]
        if race:
            cmd.insert(2, "-race")
        cmd.append(pkg)
        env = dict(os.environ, **GOENV)
        t0 = time.time()
        p = subprocess.run(cmd, cwd=self.repo, env=env, capture_output=True, text=True)
        if p.returncode != 0:
            raise MachineryError("harness build failed:\n" + p.stdout + p.stderr)
        log("built %s in %.1fs" % (name, time.time() - t0))
        self.bins[key] = out
        return out

    def tlcdir(self):
        self.tlcn += 1
        d = self.path("tlc%d" % self.tlcn)
        os.makedirs(d)
        for f in os.listdir(SPEC):
            if f.endswith(".tla"):
                shutil.copy(os.path.join(SPEC, f), d)
        return d


TLC_STATS = re.compile(r"(\d+) states generated, (\d+) distinct states found")


def tlc(sc, module, cfg_text, extra_modules=None, workers=4, timeout=1800, files=None, simulate=None, seed_=None,
        heap=None):
    """Run TLC on spec/<module>.tla with the given cfg text.  Returns dict(out, generated, distinct, ok, violated)."""
    d = sc.tlcdir()
    for name, text in (extra_modules or {}).items():
        with open(os.path.join(d, name), "w") as f:
            f.write(text)
    for name, src in (files or {}).items():
        shutil.copy(src, os.path.join(d, name))
    with open(os.path.join(d, "run.cfg"), "w") as f:
        f.write(cfg_text)
    cmd = ["tlc", "-workers", str(workers), "-metadir", os.path.join(d, "meta"), "-config", "run.cfg"]
    if seed_ is not None:
        cmd += ["-seed", str(seed_)]
    if simulate:
        cmd += ["-simulate", simulate]
    cmd.append(module + ".tla")
    env = dict(os.environ)
    # deep TLA+ recursion (byte sequences) needs a large Java thread stack; a StackOverflowError is not a verdict
    jto = env.get("JAVA_TOOL_OPTIONS", "") + " -Xss512m"
    if heap:
        jto += " -Xmx" + heap
    env["JAVA_TOOL_OPTIONS"] = jto.strip()
    t0 = time.time()
    outp = os.path.join(d, "out.txt")
    with open(outp, "w") as of:
        try:
            p = subprocess.run(["timeout", str(timeout)] + cmd, cwd=d, env=env, stdout=of, stderr=subprocess.STDOUT)
        except Exception as e:  # pragma: no cover
            raise MachineryError("tlc could not run: %s" % e)
    wall = time.time() - t0
    res = dict(dir=d, outfile=outp, wall=wall, rc=p.returncode, generated=0, distinct=0)
    tail = []
    violated = None
    err = False
    with open(outp, errors="replace") as f:
        for line in f:
            if line.startswith('<<"VF-'):
                continue
            tail.append(line)
            if len(tail) > 400:
                tail.pop(0)
            m = TLC_STATS.search(line)
            if m:
                res["generated"], res["distinct"] = int(m.group(1)), int(m.group(2))
            if line.startswith("Error: Invariant ") and "is violated" in line:
                violated = line.split()[2]
            elif line.startswith("Error:") and "Invariant" not in line and "behavior up to" not in line:
                err = True
    res["violated"] = violated
    res["tail"] = "".join(tail)
    if p.returncode == 124:
        raise MachineryError("tlc timed out after %ds on %s" % (timeout, module))
    if violated is None and (err or p.returncode not in (0,)):
        raise MachineryError("tlc failed on %s (rc=%d):\n%s" % (module, p.returncode, "".join(tail[-60:])))
    return res


def tagged_lines(path, tag):
    """Yield the JSON payloads of <<"tag", "json">> lines printed by PrintT."""
    pre = '<<"%s", "' % tag
    with open(path, errors="replace") as f:
        for line in f:
            if line.startswith(pre):
                body = line.rstrip("\n")
                body = body[len(pre):]
                if body.endswith('">>'):
                    body = body[:-3]
                # TLC prints the string with TLA+ escapes: \" and \\
                yield json.loads(json.loads('"' + body + '"'))


def cfg_text(spec, constants, overrides=None, invariants=(), view=None, action_constraints=(), constraints=(),
             properties=(), init_next=None):
    lines = []
    if init_next:
        lines += ["INIT " + init_next[0], "NEXT " + init_next[1]]
    else:
        lines.append("SPECIFICATION " + spec)
    lines.append("CONSTANTS")
    for k, v in constants.items():
        lines.append("  %s = %s" % (k, v))
    for k, v in (overrides or {}).items():
        lines.append("  %s <- %s" % (k, v))
    if view:
        lines.append("VIEW " + view)
    for i in invariants:
        lines.append("INVARIANT " + i)
    for i in properties:
        lines.append("PROPERTY " + i)
    for i in action_constraints:
        lines.append("ACTION_CONSTRAINT " + i)
    for i in constraints:
        lines.append("CONSTRAINT " + i)
    lines.append("CHECK_DEADLOCK FALSE")
    return "\n".join(lines) + "\n"


def tla_bool(b):
    return "TRUE" if b else "FALSE"


# ---------------------------------------------------------------------------------------------
# known findings, verdicts, evidence

def load_known():
    p = os.path.join(VERIF, "known_findings.json")
    if not os.path.exists(p):
        return dict(findings=[], fixed=[])
    with open(p) as f:
        return json.load(f)


def finding_matches(fd, v):
    if fd.get("property") != v.get("prop") or fd.get("clause") != v.get("clause"):
        return False
    sit = v.get("sit") or {}
    for k, want in (fd.get("situation") or {}).items():
        if sit.get(k) != want:
            return False
    return True


class Verdict:
    def __init__(self, pid, tier):
        self.pid, self.tier = pid, tier
        self.t0 = time.time()
        self.violations = []   # dicts with prop, clause, sit, trace, step, replay
        self.known_hits = {}
        self.notes = []
        self.known = [f for f in load_known().get("findings", []) if f.get("property") == pid]

    def add(self, v, replay_payload=None):
        """Record one observed violation of this property (already confirmed on the real code)."""
        for fd in self.known:
            if finding_matches(fd, v):
                self.known_hits.setdefault(fd["id"], [fd, 0])[1] += 1
                return
        if replay_payload is not None and len(self.violations) < 20:
            v = dict(v, replay=save_replay(self.pid, replay_payload))
        self.violations.append(v)

    def finish(self, level, coverage, assumptions):
        wall = time.time() - self.t0
        for fid, (fd, n) in sorted(self.known_hits.items()):
            print("KNOWN-FINDING: property=%s %s [%s, %d occurrence(s) this run]" % (self.pid, fd["what"], fid, n))
        seen = set()
        for v in self.violations:
            key = (v.get("clause"), json.dumps(v.get("sit"), sort_keys=True))
            if key in seen:
                continue
            seen.add(key)
            print("VIOLATION property=%s replay=%s clause=%s situation=%s" % (
                self.pid, v.get("replay", "-"), v.get("clause"), json.dumps(v.get("sit"), sort_keys=True)))
        coverage = dict(coverage)
        coverage["known_findings_seen"] = {k: n for k, (_, n) in self.known_hits.items()}
        ev = dict(property_id=self.pid, tier=self.tier, seed=seed(), level=level, coverage=coverage,
                  assumptions=assumptions, wall_s=round(wall, 2), violations=len(self.violations))
        if self.notes:
            ev["notes"] = self.notes[:50]
        os.makedirs(EVID, exist_ok=True)
        with open(os.path.join(EVID, self.pid + ".json"), "w") as f:
            json.dump(ev, f, indent=1, sort_keys=True)
            f.write("\n")
        log("%s %s: %d violation(s), %d known finding(s), %.1fs" % (
            self.pid, self.tier, len(self.violations), len(self.known_hits), wall))
        return 1 if self.violations else 0


def save_replay(pid, payload):
    os.makedirs(REPLAYS, exist_ok=True)
    blob = json.dumps(payload, sort_keys=True)
    hx = hashlib.sha1(blob.encode()).hexdigest()[:12]
    p = os.path.join(REPLAYS, "%s-%s.json" % (pid, hx))
    with open(p, "w") as f:
        f.write(blob + "\n")
    return p


def run_parallel(cmds, nproc, timeout, errdir):
    """Run commands (list of argv) with at most nproc at a time.  Returns list of (rc, stderr_tail)."""
    res = [None] * len(cmds)
    running = {}
    i = 0
    deadline = time.time() + timeout
    while i < len(cmds) or running:
        while i < len(cmds) and len(running) < nproc:
            ef = open(os.path.join(errdir, "err%d.txt" % i), "w")
            p = subprocess.Popen(cmds[i], stdout=subprocess.DEVNULL, stderr=ef)
            running[i] = (p, ef)
            i += 1
        done = [k for k, (p, _) in running.items() if p.poll() is not None]
        for k in done:
            p, ef = running.pop(k)
            ef.close()
            with open(os.path.join(errdir, "err%d.txt" % k), errors="replace") as f:
                err = f.read()
            res[k] = (p.returncode, err[-3000:])
        if not done:
            if time.time() > deadline:
                for p, _ in running.values():
                    p.kill()
                raise MachineryError("harness workers timed out")
            time.sleep(0.02)
    return res
