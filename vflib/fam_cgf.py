"""CDR transfer to the billing domain (spec/Cgf.tla, CgfTrace.tla): not one of the listed properties -- an extension of
the specification's coverage.  `./vf extra cgf` runs it on its own; the C03 check runs it as a verdict-free phase and
reports deviations from the model in its evidence notes."""
import json
import random

from . import core, pipe, graph
from .pipe import S

DEV = dict(DEV_ReleaseNotTransferred=True)     # as the code stands: the file written by a release is not sent


def run(sc, tier, notes):
    """Returns a coverage dict; appends human-readable findings to `notes` (no verdict)."""
    consts = dict(Subs=S("1", "2"), Sess=S("a", "b"), MaxSteps=5 if tier == "quick" else 6, **DEV)
    mc, edges, cex = pipe.explore(sc, "Cgf", consts, ["NeverAhead", "SentWhenReachable"], tier, emit="EmitEdge", tag="VF-EDGE",
                                  notes=notes, workers=4)
    g = graph.Graph(edges)
    rnd = random.Random(core.seed())
    paths, st = graph.cover(g, 150 if tier == "quick" else 1500, rnd)
    cases = []
    for i, (init, p) in enumerate(paths):
        steps = [dict(a=x["a"], u=x.get("u", ""), s=x.get("s", "")) for x in g.hist(init, p)[1:]]
        cases.append(dict(id="CGF-%d" % i, steps=steps))
    vfh = sc.build()
    trace, n = pipe.run_harness(sc, vfh, "cgf", cases, chunk=max(1, len(cases)), nworkers=1, timeout=1800)
    res = pipe.judge(sc, "CgfTrace", {k: core.tla_bool(v) for k, v in DEV.items()}, trace, n)
    for x in res["viol"][:5]:
        notes.append("CDR transfer (outside the listed properties): clause %s false at %s step %s: %s"
                     % (x["clause"], x["trace"], x["step"], json.dumps(x["sit"])))
    if res.get("div"):
        notes.append("CDR transfer: %d divergences from Cgf.tla, e.g. %s" % (len(res["div"]), json.dumps(res["div"][:2])))
    return dict(cgf_model_states=mc["distinct"], cgf_paths_replayed=len(cases), cgf_trace_lines=n,
                cgf_clause_failures=len(res["viol"]), cgf_divergences=len(res.get("div", [])),
                cgf_signature_pairs=st.get("signature_pairs"))


LIFE_DEV = dict(DEV_DiameterListenersStay=True, DEV_EmptyIdAfter200=True)


def run_life(sc, tier, notes):
    """Application life cycle (spec/AppLife.tla): every configuration of the model is checked by TLC (safety + the
    liveness property TerminationEnds under weak fairness) and its predicted outcome compared with a real run."""
    cases = []
    states = 0
    for cgf in (False, True):
        for ans in ("201", "200"):
            consts = dict(CgfEnabled=cgf, NrfAnswer='"%s"' % ans, **LIFE_DEV)
            mc, hists, cex = pipe.explore(sc, "AppLife", consts, ["ExitedClean", "DeregistersItself"], tier, notes=notes, workers=2,
                                          properties=["TerminationEnds"])
            states += mc["distinct"]
            seen = set()
            for h in hists:
                k = json.dumps(h[0], sort_keys=True)
                if k not in seen:
                    seen.add(k)
                    c = h[0]
                    cases.append(dict(id="LIFE-%d" % len(cases), cgf=c["cgf"], answer=c["answer"], traffic=c["traffic"], expect=c["expect"]))
    vfh = sc.build()
    trace, n = pipe.run_harness(sc, vfh, "life", cases, chunk=1, nworkers=4, timeout=1800)
    res = pipe.judge(sc, "AppLifeTrace", {}, trace, n)
    for x in res["viol"][:6]:
        notes.append("application life cycle (outside the listed properties): clause %s false at %s: %s" % (x["clause"], x["trace"], json.dumps(x["sit"])))
    if res.get("div"):
        notes.append("application life cycle: %d divergences from AppLife.tla, e.g. %s" % (len(res["div"]), json.dumps(res["div"][:2])))
    return dict(life_model_states=states, life_runs=len(cases), life_clause_failures=len(res["viol"]), life_divergences=len(res.get("div", [])))


def run_ind(sc, notes):
    """Apalache: Conservation is an inductive invariant of spec/AcctInd.tla (unbounded integers)."""
    import os
    import shutil
    import subprocess
    d = sc.path("apalache")
    os.makedirs(d, exist_ok=True)
    shutil.copy(os.path.join(core.SPEC, "AcctInd.tla"), d)
    out = {}
    for name, args in (("base", ["--init=Init", "--length=0"]), ("step", ["--init=IndInit", "--length=1"])):
        try:
            p = subprocess.run(["timeout", "600", "apalache-mc", "check", "--cinit=ConstInit", "--inv=IndInv", "--out-dir=" + os.path.join(d, "out")]
                               + args + ["AcctInd.tla"], cwd=d, capture_output=True, text=True)
            ok = "EXITCODE: OK" in p.stdout
        except Exception as e:  # tool missing etc.
            ok = False
            notes.append("Apalache could not run: %s" % e)
        out["apalache_%s" % name] = "proved" if ok else "NOT proved"
        if not ok:
            notes.append("Apalache did not prove the %s case of the inductive invariant of AcctInd.tla" % name)
    return out


def ind_phase():
    def ph(sc, v):
        try:
            return run_ind(sc, v.notes)
        except Exception as e:
            v.notes.append("inductive-invariant phase could not run: %s" % str(e)[:300])
            return dict(apalache="not run")
    return ph


def phase(tier):
    def ph(sc, v):
        try:
            return run(sc, tier, v.notes)
        except Exception as e:  # the extension must never decide the host property's verdict
            v.notes.append("CDR transfer phase could not run: %s" % str(e)[:300])
            return dict(cgf_phase="not run")
    return ph


def main(tier, name="cgf"):
    sc = core.Scratch(name)
    notes = []
    cov = run(sc, tier, notes) if name == "cgf" else (run_life(sc, tier, notes) if name == "life" else run_ind(sc, notes))
    print(json.dumps(cov, indent=1))
    for x in notes:
        print("NOTE:", x)
    return 0
