"""Test-path generation on the labelled state graph TLC explored.

TLC prints one VF-EDGE line per transition of the bounded model: identifiers of source and target state (64-bit
fingerprints of the VIEW), the step (request template) and the *signature* the model computes for that step (which
branch served it: mode, request present, usage present, money short, kind of grant, direction of the account and
reservation change, records added, status ...).  From that graph this module builds the behaviours that are replayed
into the implementation:

  all_edges        every transition once: breadth-first path to its source + the transition (edge coverage)
  pair_cover       paths chosen so that every PAIR of consecutive step signatures that is possible in the graph
                   (a, b) -- some state is entered by a step of signature a and left by a step of signature b --
                   is exercised at least once ("transition-pair coverage" over the signature abstraction), built by
                   greedy walks with one step of look-ahead and, for what is left, directed paths
  then triples of signatures as far as the budget allows, then random walks.

A path may be stitched from transitions TLC reached over different histories: enabling conditions and effects of a
step depend on the VIEW only, so every stitched path is a behaviour of the model.
"""
import collections
import json


class Graph:
    def __init__(self, edges):
        self.out = collections.defaultdict(list)     # node -> [(sig, step, dst)]
        self.setup = {}                              # initial node -> setup record
        self.nedges = 0
        seen = set()
        for e in edges:
            s, d = tuple(e["s"]), tuple(e["d"])
            step = e["step"]
            key = (s, d, json.dumps(step, sort_keys=True))
            if key in seen:
                continue
            seen.add(key)
            self.out[s].append((step.get("sig") or json.dumps({k: v for k, v in step.items() if k in ("a", "rg", "amt", "n", "ans")},
                                                            sort_keys=True), step, d))
            self.nedges += 1
            if isinstance(e.get("setup"), dict) and e["setup"].get("a") == "setup":
                self.setup[s] = e["setup"]
        for v in self.out:
            self.out[v].sort(key=lambda x: json.dumps(x[1], sort_keys=True))
        self.inits = sorted(self.setup)
        # breadth-first tree: node -> (parent, edge index in parent's list)
        self.parent = {v: None for v in self.inits}
        self.insig = collections.defaultdict(set)    # node -> signatures of incoming steps ("^" for initial states)
        for v in self.inits:
            self.insig[v].add("^")
        q = collections.deque(self.inits)
        self.out = collections.defaultdict(list, {v: self.out[v] for v in sorted(self.out)})
        while q:
            v = q.popleft()
            for i, (sig, step, d) in enumerate(self.out.get(v, ())):
                self.insig[d].add(sig)
                if d not in self.parent:
                    self.parent[d] = (v, i)
                    q.append(d)

    def path_to(self, v):
        """[(node, edge index)] from an initial state to v along the breadth-first tree."""
        p = []
        while self.parent[v] is not None:
            u, i = self.parent[v]
            p.append((u, i))
            v = u
        p.reverse()
        return v, p

    def hist(self, init, path):
        return [self.setup[init]] + [self.out[u][i][1] for u, i in path]

    def sigs(self, path):
        return ["^"] + [self.out[u][i][0] for u, i in path]

    def pairs(self):
        ps = set()
        for v, outs in self.out.items():
            for a in self.insig[v]:
                for sig, _, _ in outs:
                    ps.add((a, sig))
        return ps


def all_edges(g):
    out = []
    for v in sorted(g.out):
        if v not in g.parent:
            continue
        init, p = g.path_to(v)
        for i in range(len(g.out[v])):
            out.append((init, p + [(v, i)]))
    return out


def _grams(sigs, k):
    return {tuple(sigs[i:i + k]) for i in range(len(sigs) - k + 1)}


def cover(g, n, rnd, maxlen=None):
    """At most n paths: signature-pair cover first, then signature triples, then random walks."""
    universe2 = g.pairs()
    cov1, cov2, cov3 = set(), set(), set()
    paths = []

    def add(init, path):
        s = g.sigs(path)
        cov1.update(_grams(s, 1))
        cov2.update(_grams(s, 2))
        cov3.update(_grams(s, 3))
        paths.append((init, path))

    def gain(prev2, prev, sig, dst):
        x = 0.0
        if (prev, sig) not in cov2:
            x += 10
        if (prev2, prev, sig) not in cov3:
            x += 1
        if (sig,) not in cov1:
            x += 5
        # one step of look-ahead
        nxt = g.out.get(dst, ())
        if nxt:
            x += 3.0 * sum(1 for s2, _, _ in nxt if (sig, s2) not in cov2) / len(nxt)
        return x

    def extend(init, path, v):
        s = g.sigs(path)
        prev2, prev = (s[-2] if len(s) > 1 else "", s[-1])
        while g.out.get(v) and (maxlen is None or len(path) < maxlen):
            outs = g.out[v]
            best, bi = -1.0, []
            for i, (sig, _, d) in enumerate(outs):
                x = gain(prev2, prev, sig, d)
                if x > best + 1e-9:
                    best, bi = x, [i]
                elif abs(x - best) <= 1e-9:
                    bi.append(i)
            i = rnd.choice(bi)
            path = path + [(v, i)]
            prev2, prev = prev, outs[i][0]
            v = outs[i][2]
        return path

    # 1. greedy walks from the initial states
    stale = 0
    while len(paths) < n and stale < 20 and g.inits:
        init = rnd.choice(g.inits)
        before = len(cov2)
        p = extend(init, [], init)
        if len(_grams(g.sigs(p), 2) - cov2) > 0:
            add(init, p)
            stale = 0
        else:
            stale += 1
        if len(cov2) == before:
            stale += 0
    # 2. directed paths for the pairs still missing
    missing = sorted(universe2 - cov2, key=lambda x: json.dumps(x))
    rnd.shuffle(missing)
    if missing:
        where = collections.defaultdict(list)      # (a, b) -> [(node, edge index of b)]
        for v in sorted(g.out):
            outs = g.out[v]
            if v not in g.parent:
                continue
            for i, (sig, _, _) in enumerate(outs):
                for a in sorted(g.insig[v]):
                    if (a, sig) in universe2 and (a, sig) not in cov2:
                        where[(a, sig)].append((v, i))
        inedge = collections.defaultdict(list)     # (node, sig a) -> [(src, edge index)]
        for u in sorted(g.out):
            outs = g.out[u]
            if u not in g.parent:
                continue
            for i, (sig, _, d) in enumerate(outs):
                inedge[(d, sig)].append((u, i))
        for (a, b) in missing:
            if len(paths) >= n:
                break
            if (a, b) in cov2 or not where[(a, b)]:
                continue
            v, i = rnd.choice(where[(a, b)])
            if a == "^":
                init, p = v, []
            else:
                u, j = rnd.choice(inedge[(v, a)])
                init, p = g.path_to(u)
                p = p + [(u, j)]
            p = p + [(v, i)]
            p = extend(init, p, g.out[v][i][2])
            add(init, p)
    # 3. signature triples, greedy walks
    stale = 0
    while len(paths) < n and stale < 30 and g.inits:
        init = rnd.choice(g.inits)
        p = extend(init, [], init)
        if _grams(g.sigs(p), 3) - cov3:
            add(init, p)
            stale = 0
        else:
            stale += 1
    # 4. random walks
    tries = 0
    seen = {json.dumps(p) for _, p in paths}
    while len(paths) < n and tries < 5 * n and g.inits:
        tries += 1
        init = rnd.choice(g.inits)
        v, p = init, []
        while g.out.get(v) and (maxlen is None or len(p) < maxlen):
            i = rnd.randrange(len(g.out[v]))
            p.append((v, i))
            v = g.out[v][i][2]
        k = json.dumps(p)
        if k not in seen:
            seen.add(k)
            add(init, p)
    stats = dict(step_signatures="%d of %d" % (len({(s,) for s in _all_sigs(g)} & cov1), len(_all_sigs(g))),
                 signature_pairs="%d of %d" % (len(cov2 & universe2), len(universe2)),
                 signature_triples_exercised=len(cov3))
    return paths, stats


def _all_sigs(g):
    return {sig for outs in g.out.values() for sig, _, _ in outs}


def edge_stats(g, paths):
    used = set()
    for _, p in paths:
        used.update(p)
    return "%d of %d" % (len(used), g.nedges)
