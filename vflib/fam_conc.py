"""C09: concurrent requests (spec/ChfConc.tla, ChfConcTrace.tla), gated replay of TLC interleavings through
the verif hooks plus ungated runs under the Go race detector."""
import json
import os
import random
import re
import subprocess
import time

from . import core, pipe

with open(os.path.join(core.SPEC, "dev_flags.json")) as _f:
    DEV = json.load(_f)


def R(kind, u, s="", shape=""):
    return dict(kind=kind, u=u, s=s, shape=shape)


MIXES = {
    "upd_upd": ([R("update", "1", "s1"), R("update", "1", "s1")], [R("", "1", "s1")]),
    "upd_rel": ([R("update", "1", "s1"), R("release", "1", "s1")], [R("", "1", "s1")]),
    "upd_rech": ([R("update", "1", "s1"), R("recharge", "1")], [R("", "1", "s1")]),
    "cre_cre_same": ([R("create", "1"), R("create", "1")], []),
    "cre_cre_diff": ([R("create", "1"), R("create", "2")], []),
    "cre_upd": ([R("create", "1"), R("update", "1", "s1")], [R("", "1", "s1")]),
    "cre3_same": ([R("create", "1"), R("create", "1"), R("create", "1")], []),
    "upd_upd_rech": ([R("update", "1", "s1"), R("update", "1", "s1"), R("recharge", "1")], [R("", "1", "s1")]),
    "upd_upd_diff": ([R("update", "1", "s1"), R("update", "2", "s2")], [R("", "1", "s1"), R("", "2", "s2")]),
    "upd_rel_diff": ([R("update", "1", "s1"), R("release", "2", "s2")], [R("", "1", "s1"), R("", "2", "s2")]),
    "rel_cre": ([R("release", "1", "s1"), R("create", "1")], [R("", "1", "s1")]),
    # the release of the subscriber's only session, carrying no usage (nothing stays reserved), while a create is in flight
    "rel_cre_plain": ([R("release", "1", "s1", "plain"), R("create", "1")], [R("", "1", "s1")]),
    # two recharges of one subscriber for different rating groups (for a recharge the session field names the rating group)
    "rech_rech": ([R("recharge", "1", "1"), R("recharge", "1", "2")], [R("", "1", "s1")]),
    # a recharge whose notification makes the consumer send an update at once, from inside its notification handler
    "rech_reauth": ([R("recharge", "1", "1", "reauth")], [R("", "1", "s1")]),
    "rech_reauth_upd": ([R("recharge", "1", "1", "reauth"), R("update", "1", "s1")], [R("", "1", "s1")]),
    "rech_rech_upd": ([R("recharge", "1", "1"), R("recharge", "1", "2"), R("update", "1", "s1")], [R("", "1", "s1")]),
    "upd_rel_cre": ([R("update", "1", "s1"), R("release", "1", "s1"), R("create", "1")], [R("", "1", "s1")]),
}
QUICK = ["upd_upd", "upd_rel", "upd_rech", "cre_cre_same", "cre_cre_diff", "cre_upd", "rel_cre", "upd_upd_diff", "upd_rel_diff",
         "rel_cre_plain", "rech_rech", "rech_reauth"]


def tla_req(r):
    return '[kind |-> "%s", u |-> "%s", s |-> "%s"]' % (r["kind"], r["u"], r["s"])


def check(pid, tier, replay=None):
    v = core.Verdict(pid, tier)
    sc = core.Scratch(pid)
    rnd = random.Random(core.seed())
    plain = pipe.Builder(sc)
    names = QUICK if tier == "quick" else list(MIXES)
    cases = []
    states = trans = 0
    violated = []
    for name in names:
        mix, ex = MIXES[name]
        consts = dict(Mix="<<" + ", ".join(tla_req(r) for r in mix) + ">>",
                      Existing="{" + ", ".join('[u |-> "%s", s |-> "%s"]' % (e["u"], e["s"]) for e in ex) + "}",
                      DEV_FindThenStore=DEV["DEV_FindThenStore"], DEV_RechargeUnlocked=DEV["DEV_RechargeUnlocked"],
                      DEV_SeqReadUnlocked=DEV["DEV_SeqReadUnlocked"], EmitOneIn=1)
        mc, hists, cex = pipe.explore(sc, "ChfConc", consts, ["InvC09"], tier, notes=v.notes, workers=2,
                                      view="ViewAll" if len(mix) <= 2 or tier == "thorough" else "View")
        states += mc["distinct"]
        trans += mc["generated"]
        if mc.get("violated"):
            violated.append(name)
        scheds = [h[0]["schedule"] for h in cex] + [h[0]["schedule"] for h in hists]
        seen, uniq = set(), []
        for s in scheds:
            k = json.dumps(s)
            if k not in seen:
                seen.add(k)
                uniq.append(s)
        cap = 14 if tier == "quick" else 400
        head = uniq[:len(cex)]
        rest = uniq[len(cex):]
        rnd.shuffle(rest)
        for i, s in enumerate(head + rest[:cap]):
            cases.append(dict(id="C09-%s-g%d" % (name, i), mix=mix, existing=ex, schedule=s, gated=True, procs=4, repeat=1, steps=s))
    gated = list(cases)
    # ungated runs of the same mixes (and wider ones) under the race detector
    free = []
    for name in names:
        mix, ex = MIXES[name]
        for procs in ([1, 4, 16] if tier == "quick" else [1, 2, 4, 16]):
            free.append(dict(id="C09-%s-f%d" % (name, procs), mix=mix, existing=ex, schedule=[], gated=False, procs=procs,
                             repeat=6 if tier == "quick" else 40, steps=[1]))
    wide = ([R("update", "1", "s1")] * 4 + [R("update", "2", "s2")] * 3 + [R("recharge", "1")] * 2 + [R("create", "1")] * 3 + [R("create", "2")] * 2
            + [R("release", "1", "s1")] + [R("release", "2", "s2")])
    free.append(dict(id="C09-wide16", mix=wide, existing=[R("", "1", "s1"), R("", "2", "s2")], schedule=[], gated=False, procs=16,
                     repeat=4 if tier == "quick" else 40, steps=[1]))
    if replay:
        with open(replay) as f:
            b = json.load(f)["behaviour"]
        gated, free = ([b], []) if b.get("gated") else ([], [b])
    vfh = plain.get()
    race_bin = sc.build(race=True)
    t1, n1 = pipe.run_harness(sc, vfh, "conc", gated, chunk=6, nworkers=12, timeout=3000) if gated else (None, 0)
    # the race-detector runs: one process per case, stderr inspected
    wd = sc.path("race")
    os.makedirs(wd, exist_ok=True)
    race_reports = []
    jobs = []
    for i, c in enumerate(free):
        inp = os.path.join(wd, "f%d.json" % i)
        with open(inp, "w") as f:
            json.dump([c], f)
        jobs.append((c, inp, os.path.join(wd, "f%d.ndjson" % i), os.path.join(wd, "f%d.err" % i)))
    procs = []
    for j, (c, inp, outp, errp) in enumerate(jobs):
        while len([p for p in procs if p[0].poll() is None]) >= 6:
            time.sleep(0.05)
        ef = open(errp, "w")
        env = dict(os.environ, GORACE="halt_on_error=0 exitcode=0", VF_TMP=sc.path("tmp"))
        os.makedirs(sc.path("tmp"), exist_ok=True)
        procs.append((subprocess.Popen([race_bin, "conc", "%d%03d" % (core.slot(), 900 + j), inp, outp], stdout=subprocess.DEVNULL, stderr=ef, env=env), ef, c, outp, errp))
    t0 = time.time()
    for p, ef, c, outp, errp in procs:
        try:
            p.wait(timeout=max(5, 1500 - (time.time() - t0)))
        except subprocess.TimeoutExpired:
            p.kill()
        ef.close()
        err = open(errp, errors="replace").read()
        if "DATA RACE" in err:
            m = re.search(r"WARNING: DATA RACE\n(.*?)\n\n", err, re.S)
            funcs = re.findall(r"^\s+(github\.com/free5gc/chf/\S+?)\(\)$", err, re.M)
            race_reports.append((c, sorted(set(funcs))[:6], (m.group(0) if m else err)[:1500]))
        elif "fatal error" in err or (p.returncode not in (0, None) and not os.path.exists(outp)):
            race_reports.append((c, ["fatal"], err[-1500:]))
    t2 = os.path.join(wd, "all.ndjson")
    n2 = 0
    with open(t2, "w") as out:
        for _, _, _, outp, _ in procs:
            if os.path.exists(outp):
                for line in open(outp):
                    out.write(line)
                    n2 += 1
    allp = os.path.join(wd, "judge.ndjson")
    with open(allp, "w") as out:
        for pth in (t1, t2):
            if pth:
                out.write(open(pth).read())
    res = pipe.judge(sc, "ChfConcTrace", {}, allp, n1 + n2)
    bymap = {c["id"]: c for c in gated + free}
    for x in sorted(res["viol"], key=lambda x: (str(x["trace"]), x["step"])):
        v.add(x, dict(family="conc", property=pid, behaviour=bymap.get(x["trace"]), violation=x, trace=pipe.trace_lines(allp, x["trace"])[:2]))
    for c, funcs, text in race_reports:
        kind = "process_crash" if funcs == ["fatal"] else "no_data_race"
        sit = dict(functions=[f.split("/")[-1] for f in funcs][:4]) if kind == "no_data_race" else dict(mix=sorted(set(r["kind"] for r in c["mix"])))
        v.add(dict(prop=pid, clause=kind, sit=sit, trace=c["id"], step=0), dict(family="conc", property=pid, behaviour=c, report=text))
    ndiv = len(res.get("div", []))
    if ndiv:
        v.notes.append("schedules that could not be reproduced on the real code (no verdict): %d; e.g. %s" % (ndiv, json.dumps(res["div"][:2])))
    if violated:
        v.notes.append("the as-is model admits a violation in mixes %s; counterexample schedules replayed" % violated)
    cov = dict(states=max(states, 1), transitions=max(trans, 1), traces_validated_against_impl=len(gated) + n2,
               gated_schedules_replayed=len(gated), ungated_runs_under_race_detector=n2, race_reports=len(race_reports),
               unreproducible_schedules=ndiv, model_invariants=["InvC09"], mixes=names, exhaustive=False,
               samples=[dict(id=c["id"], mix=c["mix"], schedule=c["schedule"]) for c in gated[:2]],
               explanation="TLC explored every interleaving (at hook granularity) of each request mix in ChfConc; schedules were replayed "
                           "deterministically on the real router by parking goroutines at the verif hooks; the same mixes and a 16-request mix "
                           "ran ungated under the Go race detector with GOMAXPROCS 1..16; TLC judged return, follow-up usability of every "
                           "acknowledged session, quiescent conservation / exactly-once, mutual exclusion and lockset on the hook events")
    return v.finish("model_checking", cov, [
        "interleavings are exhaustive at hook granularity only; finer races are left to the race detector on the ungated runs",
        "a schedule the real code cannot follow is reported as unreproducible (no verdict)",
        "fake in-memory MongoDB; real rating/account servers",
    ])


def create_phase(pid, tier):
    """Concurrent half of C10: interleavings of creates (same subscriber and consumer, different subscribers) replayed
    through the hooks and run ungated; references must be unique and keep designating their session."""
    def phase(sc, v):
        rnd = random.Random(core.seed())
        names = ["cre_cre_same", "cre_cre_diff", "rel_cre"] + (["cre3_same", "upd_rel_cre"] if tier == "thorough" else [])
        cases = []
        states = 0
        for name in names:
            mix, ex = MIXES[name]
            consts = dict(Mix="<<" + ", ".join(tla_req(r) for r in mix) + ">>",
                          Existing="{" + ", ".join('[u |-> "%s", s |-> "%s"]' % (e["u"], e["s"]) for e in ex) + "}",
                          DEV_FindThenStore=DEV["DEV_FindThenStore"], DEV_RechargeUnlocked=DEV["DEV_RechargeUnlocked"],
                          DEV_SeqReadUnlocked=DEV["DEV_SeqReadUnlocked"], EmitOneIn=1)
            mc, hists, cex = pipe.explore(sc, "ChfConc", consts, ["InvC09"], tier, notes=v.notes, workers=2,
                                          view="ViewAll" if len(mix) <= 2 else "View")
            states += mc["distinct"]
            scheds = [h[0]["schedule"] for h in cex + hists]
            rnd.shuffle(scheds)
            for i, s in enumerate(scheds[: (10 if tier == "quick" else 200)]):
                cases.append(dict(id="%s-%s-g%d" % (pid, name, i), mix=mix, existing=ex, schedule=s, gated=True, procs=4, repeat=1))
            cases.append(dict(id="%s-%s-free" % (pid, name), mix=mix * (3 if tier == "quick" else 6), existing=ex, schedule=[], gated=False,
                              procs=8, repeat=10 if tier == "quick" else 100))
        vfh = sc.build()
        trace, n = pipe.run_harness(sc, vfh, "conc", cases, chunk=4, nworkers=10, timeout=1800)
        res = pipe.judge(sc, "ChfConcTrace", {}, trace, n)
        bymap = {c["id"]: c for c in cases}
        rename = {"refs_unique": "ref_unique_concurrent", "acked_session_usable": "ref_designates_concurrent",
                  "subscriber_context_unique": "ref_designates_concurrent", "all_requests_return": "concurrent_creates_return"}
        for x in sorted(res["viol"], key=lambda x: (str(x["trace"]), x["step"])):
            if x["clause"] in rename:
                y = dict(x, prop=pid, clause=rename[x["clause"]])
                v.add(y, dict(family="conc", property="C09", behaviour=bymap.get(x["trace"]), violation=y, trace=pipe.trace_lines(trace, x["trace"])[:2]))
        return dict(concurrent_create_runs=n, concurrent_model_states=states)
    return phase
