"""C17: Diameter messages intact over the wire; dictionaries cover the structs (spec/DiamMsg.tla)."""
from . import core, pipe
from .pipe import S


SEEN = []


def to_vec(hist, bid):
    v = dict(hist[0])
    v["id"] = bid
    v["steps"] = [1]
    SEEN.append(v)
    return v


def client_phase(tier):
    """The same vectors through the product's own client functions (internal/abmf, internal/rating) against programmable
    peers, one after the other in one process per worker, in a seeded order."""
    def phase(sc, v):
        import random
        rnd = random.Random(core.seed())
        vecs = [dict(x, id=x["id"] + "c") for x in SEEN if x.get("msg") in ("SUR", "SUA", "CCR", "CCA")]
        rnd.shuffle(vecs)
        cap = 1600 if tier == "quick" else 20000
        # every vector that mixes classes within one message, then a seeded sample of the others
        vecs = [x for x in vecs if x.get("hm")] + [x for x in vecs if not x.get("hm")][:cap]
        vfh = sc.build()
        trace, n = pipe.run_harness(sc, vfh, "diamchf", vecs, chunk=max(50, len(vecs) // 12 + 1), nworkers=12, timeout=1800)
        res = pipe.judge(sc, "DiamMsgTrace", {}, trace, n)
        bymap = {x["id"]: x for x in vecs}
        for x in sorted(res["viol"], key=lambda x: (str(x["trace"]), x["step"])):
            x = dict(x, sit=dict(x["sit"], via="chf-client"))
            v.add(x, dict(family="diammsg", property="C17", behaviour=bymap.get(x["trace"]), violation=x, trace=pipe.trace_lines(trace, x["trace"])))
        return dict(vectors_through_chf_client_functions=n)
    return phase


def check(pid, tier, replay=None):
    consts = dict(Msgs=S("SUR", "SUA", "CCR", "CCA"), Classes=S("zero", "one", "mid", "max", "min", "neg"),
                  StrClasses=S("short", "long", "empty"), MaxPtr=24 if tier == "thorough" else 21, MaxNum=36, EmitOneIn=1)
    if tier == "quick":
        consts["Classes"] = S("zero", "one", "max", "min", "neg")
    extra = [dict(id="C17-tables", msg="tables", cls="", present="", k=0, strs="", steps=[1])]
    return pipe.standard_check(
        pid, tier, family="diammsg", base_module="DiamMsg", consts=consts, invariants=["WireIsIdentity"], n_beh=1000000,
        to_behaviour=to_vec, harness_mode="diammsg", trace_module="DiamMsgTrace",
        trace_consts={},
        clauses=None, extra=extra, replay=replay, chunk=400, extra_phase=client_phase(tier),
        explanation="TLC enumerated every vector (message struct x value class x presence mask of each optional grouped AVP "
                    "x string class) of the DiamMsg channel model; EVERY vector was pushed through the real go-diameter "
                    "Marshal -> Serialize -> ReadMessage -> Unmarshal with the dictionaries loaded in product order and the "
                    "received leaf map compared with the sent one by TLC; the struct-tag and dictionary tables are extracted "
                    "from the code on every run and checked by TLA+ predicates (tags resolve, types compatible, codes unique)",
        assumptions=["go-diameter itself is trusted only as far as the round trip shows", "raw Grouped / IPFilterRule / Address "
                     "typed fields are left empty", "Enumerated named types get small member values"])
