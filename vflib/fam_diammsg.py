"""C17: Diameter messages intact over the wire; dictionaries cover the structs (spec/DiamMsg.tla)."""
from . import core, pipe
from .pipe import S


def to_vec(hist, bid):
    v = dict(hist[0])
    v["id"] = bid
    v["steps"] = [1]
    return v


def check(pid, tier, replay=None):
    consts = dict(Msgs=S("SUR", "SUA", "CCR", "CCA"), Classes=S("zero", "one", "mid", "max", "min", "neg"),
                  StrClasses=S("short", "long", "empty"), MaxPtr=24 if tier == "thorough" else 21, EmitOneIn=1)
    if tier == "quick":
        consts["Classes"] = S("zero", "one", "max", "min", "neg")
    extra = [dict(id="C17-tables", msg="tables", cls="", present="", k=0, strs="", steps=[1])]
    return pipe.standard_check(
        pid, tier, family="diammsg", base_module="DiamMsg", consts=consts, invariants=["WireIsIdentity"], n_beh=1000000,
        to_behaviour=to_vec, harness_mode="diammsg", trace_module="DiamMsgTrace",
        trace_consts={},
        clauses=None, extra=extra, replay=replay, chunk=400,
        explanation="TLC enumerated every vector (message struct x value class x presence mask of each optional grouped AVP "
                    "x string class) of the DiamMsg channel model; EVERY vector was pushed through the real go-diameter "
                    "Marshal -> Serialize -> ReadMessage -> Unmarshal with the dictionaries loaded in product order and the "
                    "received leaf map compared with the sent one by TLC; the struct-tag and dictionary tables are extracted "
                    "from the code on every run and checked by TLA+ predicates (tags resolve, types compatible, codes unique)",
        assumptions=["go-diameter itself is trusted only as far as the round trip shows", "raw Grouped / IPFilterRule / Address "
                     "typed fields are left empty", "Enumerated named types get small member values"])
