"""ChfSeq family (C01 C02 C03 C06 C10 C12): bounded model checking of spec/ChfSeqMC.tla, behaviours
of the explored graph replayed into the real code, every recorded trace judged by spec/ChfSeqTrace.tla."""
import json
import os
import random
import threading
import time

from . import core, pipe
from .pipe import S

SEQ_FLAGS = ["DEV_GrantFromRequest", "DEV_LastRecordOverride", "DEV_CCBeforeLookup", "DEV_Release400", "DEV_RefConcat",
             "DEV_NoGuardOnRelease", "DEV_KeepReleased", "DEV_NilRequestedUnitPanics"]
with open(os.path.join(core.SPEC, "dev_flags.json")) as _f:
    _all = json.load(_f)
DEV = {k: _all[k] for k in SEQ_FLAGS}


BASE = dict(
    Subs=S("1"), RGs=S("1"), Consumers=S("a"), AcctChoices=S((5, 1), (7, 2), (0, 3)),
    Reqs=S(2, 4), Vols=S(0, 1, 3), Modes=S("on"), TrigSets=S("none", "final", "partial"),
    TopUps=S(6), MaxSteps=5, MaxSess=1, Limit=100, Pads=S(0), CreateConts=S(0),
    TwoEntries=False, BadRefs=False, WellBehaved=False, AskAfterFinal=True, KnownDebitNoFui=True, Lrsn0=0, Recharges=True, Traffic=S(), SinkAnswers=S(204), AddrKinds=S("none"), ContShapes=S("single"), ChidModes=S(0), UpdNfcs="{FALSE}",
    Events=False, EvTypes=S(""), Faults=S("none"), BadCreates=S(),
    PlmnKinds=S(""), BulkEvents=S(), OpCfgs="{[vl |-> 0, vlp |-> 0, qvt |-> 0, th |-> 512, mqcap |-> 0]}",
)

# operator configurations (volumeLimit, volumeLimitPDU, quotaValidityTime, volumeThresholdRate * 1024)
OPCFGS = ("{[vl |-> 0, vlp |-> 0, qvt |-> 0, th |-> 512, mqcap |-> 0], [vl |-> 7, vlp |-> 0, qvt |-> 0, th |-> 1024, mqcap |-> 0], "
          "[vl |-> 0, vlp |-> 9, qvt |-> 0, th |-> 0, mqcap |-> 0], [vl |-> 0, vlp |-> 0, qvt |-> 11, th |-> 256, mqcap |-> 0], "
          "[vl |-> 7, vlp |-> 9, qvt |-> 11, th |-> 768, mqcap |-> 0]}")
# slices that do not explore the configuration themselves are replayed under one of these, chosen from the behaviour's id
# (the judge applies the model under the configuration it observes)
CFG_POOL = [dict(vl=0, vlp=0, qvt=0, th=512), dict(vl=0, vlp=0, qvt=0, th=512), dict(vl=5, vlp=0, qvt=0, th=512),
            dict(vl=0, vlp=6, qvt=0, th=1024), dict(vl=0, vlp=0, qvt=30, th=256), dict(vl=5, vlp=6, qvt=30, th=768)]

# clause -> invariant of ChfSeqMC that states it on the model
INV = {
    "C01": ["InvConservation"],
    "C06": ["InvNoOverdraft", "InvGrantAffordable"],
    "C02": ["InvExactlyOnce", "InvRecordIdentity"],
    "C03": ["InvRecordWithinLimit"],
    "C10": ["InvRefUnique", "InvExactlyOnce"],
    "C12": ["InvRejectionNoEffect"],
}

# which judged clauses decide which property
CLAUSES = {
    "C01": {("C01", "conservation")},
    "C06": {("C06", "no_overdraft"), ("C06", "grant_affordable")},
    "C02": {("C02", "exactly_once"), ("C02", "record_identity"), ("C02", "opening_time"),
            ("C02", "cause_partial"), ("C02", "cause_normal"), ("C02", "file_matches_records")},
    "C03": {("C03", "file_well_formed"), ("C03", "record_within_limit")},
    "C10": {("C10", "ref_unique"), ("C10", "ref_designates")},
    "C12": {("C12", "create_contract"), ("C12", "update_contract"), ("C12", "release_contract"),
            ("C12", "unknown_is_4xx"), ("C12", "rejection_no_effect"), ("C12", "recharge_contract"),
            ("C12", "recharge_unknown_notifies"), ("C12", "malformed_create_rejected")},
}

def realpad(limit, pad):
    """Real serviceSpecificationInfo size that leaves about as many container slots as the model's pad."""
    return 0 if pad == 0 else 65430 - 45 * (limit - 1 - pad)


GROW_ENTRIES = 2035   # calibrated: the record then encodes to about 65 030 octets (just below the guard's limit of 65 519)


def size_scenarios(tier):
    """C03: requests that by themselves carry more than a record can hold, and many updates on one session."""
    acct = [dict(u="1", rg="1", quota=1000000, cost="1")]
    big = [dict(rg="1", req=-1, conts=[dict(m="off", vol=1)] * 4000)]
    many = [dict(a="update", u="1", s="s1", usage=[dict(rg="1", req=-1, conts=[dict(m="off", vol=1)] * 120)]) for _ in range(20 if tier == "quick" else 60)]
    # a record filled by many small usage entries, then entries that encode larger than the earliest ones
    small = [dict(rg="1", req=-1, conts=[dict(m="off", vol=1)])] * GROW_ENTRIES
    large = [dict(rg="1", req=-1, conts=[dict(m="off", vol=1)] * 60)]
    growing = dict(id="C03-growing", lrsn0=0, wb=False, ues=["1"], accts=acct,
                   steps=[dict(a="create", u="1", s="s1", c="a", chid=1, usage=[]), dict(a="update", u="1", s="s1", usage=small),
                          dict(a="update", u="1", s="s1", usage=large), dict(a="update", u="1", s="s1", usage=large),
                          dict(a="release", u="1", s="s1", usage=large, trig=[])])
    # one octet at a time: usage entries whose encoded length sweeps through 127/128 and 255/256 (UPF identifier of
    # growing length), so that every length-octet boundary of the BER encoding is met by some element of the record
    sweep = dict(id="C03-lengths", lrsn0=0, wb=False, ues=["1"], accts=acct,
                 steps=[dict(a="create", u="1", s="s1", c="a", chid=1, usage=[])]
                       + [dict(a="update", u="1", s="s1", upf="u" * n, usage=[dict(rg="1", req=-1, conts=[dict(m="off", vol=1)])])
                          for n in list(range(60, 140)) + list(range(190, 270))]
                       + [dict(a="release", u="1", s="s1", usage=[], trig=[])])
    return [
        growing, sweep,
        dict(id="C03-bigcreate", lrsn0=0, wb=False, ues=["1"], accts=acct,
             steps=[dict(a="create", u="1", s="s1", c="a", chid=1, pad=66000, usage=[])]),
        dict(id="C03-bigupdate", lrsn0=0, wb=False, ues=["1"], accts=acct,
             steps=[dict(a="create", u="1", s="s1", c="a", chid=1, usage=[]), dict(a="update", u="1", s="s1", usage=big),
                    dict(a="update", u="1", s="s1", usage=[dict(rg="1", req=-1, conts=[dict(m="off", vol=1)])])]),
        dict(id="C03-bigrelease", lrsn0=0, wb=False, ues=["1"], accts=acct,
             steps=[dict(a="create", u="1", s="s1", c="a", chid=1, usage=[]), dict(a="release", u="1", s="s1", usage=big, trig=[])]),
        dict(id="C03-many", lrsn0=0, wb=False, ues=["1"], accts=acct,
             steps=[dict(a="create", u="1", s="s1", c="a", chid=1, usage=[])] + many + [dict(a="release", u="1", s="s1", usage=[], trig=[])]),
    ]


def wrap_scenarios():
    """C10: sessions numbered 0, 1, 2 stay open while the CHF's record counter comes up to 2^32 (the records it opened
    meanwhile are not replayed: the counter is set), then further sessions of the same subscriber and consumer."""
    out = []
    for i, below in enumerate([1, 2, 3]):
        steps = [dict(a="create", u="1", s="s%d" % k, c="a", chid=k, usage=[]) for k in (1, 2, 3)]
        steps.append(dict(a="jump", u="1", s="", amt=below))
        steps += [dict(a="create", u="1", s="s%d" % k, c="a", chid=k, usage=[]) for k in (4, 5, 6, 7)]
        steps += [dict(a="update", u="1", s="s1", usage=[dict(rg="1", req=-1, conts=[dict(m="off", vol=1)])]),
                  dict(a="update", u="1", s="s5", usage=[dict(rg="1", req=-1, conts=[dict(m="off", vol=2)])]),
                  dict(a="release", u="1", s="s2", usage=[], trig=[]), dict(a="release", u="1", s="s6", usage=[], trig=[])]
        out.append(dict(id="C10-wrap%d" % i, lrsn0=0, wb=False, ues=["1"], accts=[dict(u="1", rg="1", quota=50, cost="1")], steps=steps))
    return out


def tz_scenarios():
    """C02: one create/update/release per host time-zone offset (positive, negative, non-hour-aligned)."""
    out = []
    for i, tz in enumerate([0, 3600, 19800, 20700, 50400, -1800, -12600, -43200, 45900, -34200]):
        out.append(dict(id="C02-tz%d" % i, lrsn0=3, wb=False, ues=["1"],
                        accts=[dict(u="1", rg="1", quota=50, cost="1")],
                        steps=[dict(a="create", u="1", s="s1", c="a", chid=5, tz=tz,
                                    usage=[dict(rg="1", req=-1, conts=[dict(m="off", vol=2)])]),
                               dict(a="update", u="1", s="s1", usage=[dict(rg="1", req=4, conts=[dict(m="on", vol=0)])]),
                               dict(a="release", u="1", s="s1", usage=[], trig=[])]))
    return out


def cfg(pid, tier):
    """Bounded configurations ("slices") of ChfSeqMC per property.  A slice with graph=True has its whole labelled
    state graph handed to the runner, which replays either every transition (n_beh=None) or a signature-pair cover
    of n_beh paths (vflib/graph.py); small, focused slices replace one large product that could only be sampled."""
    q = tier == "quick"
    extra = []

    def sl(name, n_beh, **over):
        c = dict(BASE)
        c.update(over)
        return dict(name=name, consts=c, n_beh=n_beh, graph=True)

    if pid == "C01":
        slices = [
            # one subscriber, one rating group, every kind of step incl. top-up and recharge, deep
            sl("deep", 1500 if q else 12000, MaxSteps=5 if q else 6, Vols=S(0, 1, 3), Reqs=S(2, 4)),
            # two rating groups in one request / in separate requests
            sl("two-rg", 600 if q else 6000, RGs=S("1", "2"), TwoEntries=True, MaxSteps=3 if q else 4, Vols=S(0, 3), Reqs=S(4),
               AcctChoices=S((5, 1), (9, 2)), TopUps=S(), TrigSets=S("none", "final")),
            # two containers in one usage entry: two online ones, or an online and an offline one of the same rating group
            sl("mixed", 500 if q else 5000, MaxSteps=3 if q else 4, Vols=S(0, 3), Reqs=S(4), AcctChoices=S((9, 2)), TopUps=S(),
               TrigSets=S("none", "final"), ContShapes=S("on_on", "on_off"), Recharges=False),
            # two sessions of one subscriber sharing a rating group; two subscribers
            sl("two-sess", 500 if q else 6000, Subs=S("1", "2"), MaxSess=2, MaxSteps=4 if q else 5, Vols=S(0, 3), Reqs=S(4),
               AcctChoices=S((5, 1), (9, 2)), TopUps=S(), TrigSets=S("none", "final")),
            # offline and online charging of the same rating group in turn (a rating group first seen offline), two sessions
            sl("off-on", 500 if q else 5000, MaxSess=2, MaxSteps=4 if q else 5, Vols=S(0, 3), Reqs=S(4), Modes=S("on", "off"),
               AcctChoices=S((9, 2)), TopUps=S(), TrigSets=S("none", "final"), Recharges=False),
            # event based charging (one-time events) next to the sessions of the same subscriber
            sl("events", 300 if q else 3000, Events=True, MaxSteps=4 if q else 5, Vols=S(3), Reqs=S(4), AcctChoices=S((9, 2)),
               TopUps=S(), TrigSets=S("none", "final"), Recharges=False),
            # the operator's configuration (volume limits, quota validity time, threshold rate): two rating groups in one request
            sl("opcfg", 400 if q else 4000, OpCfgs=OPCFGS, RGs=S("1", "2"), TwoEntries=True, MaxSteps=3 if q else 4, Vols=S(3), Reqs=S(4),
               AcctChoices=S((9, 2)), TopUps=S(), TrigSets=S("none", "final"), Recharges=False),
        ]
    elif pid == "C06":
        wb = dict(WellBehaved=True, AcctChoices=S((5, 1), (7, 2), (0, 3), (40, 1)), Reqs=S(2, 4), Vols=S(0, 2, 4))
        slices = [
            sl("deep", 1500 if q else 15000, MaxSteps=5 if q else 6, TopUps=S() if q else S(6), **wb),
            sl("two-rg", 500 if q else 6000, RGs=S("1", "2"), TwoEntries=True, MaxSteps=3 if q else 4, TopUps=S(),
               **dict(wb, AcctChoices=S((5, 1), (7, 2), (0, 3)), Vols=S(0, 4))),
            sl("topup", 300 if q else 3000, MaxSteps=4 if q else 5, TopUps=S(6), TrigSets=S("none", "final"),
               **dict(wb, AcctChoices=S((5, 1), (0, 3)))),
            sl("mixed", 400 if q else 4000, MaxSteps=4 if q else 5, TopUps=S(), TrigSets=S("none", "final"), Recharges=False,
               ContShapes=S("on_on", "on_off"), **dict(wb, AcctChoices=S((10, 1), (21, 2)), Vols=S(0, 2), Reqs=S(4))),
            # the account balance function unreachable while single requests are served
            sl("abmf-down", 500 if q else 5000, Faults=S("none", "abmf"), MaxSteps=5 if q else 6, TopUps=S(), TrigSets=S("none", "final"),
               Recharges=False, **dict(wb, AcctChoices=S((9, 2), (10, 1)), Vols=S(0, 4), Reqs=S(4))),
            sl("opcfg", 400 if q else 4000, OpCfgs=OPCFGS, MaxSteps=4 if q else 5, TopUps=S(), TrigSets=S("none", "final"),
               Recharges=False, Modes=S("on", "off"), **dict(wb, AcctChoices=S((9, 2), (3, 1)), Vols=S(0, 4), Reqs=S(4))),
            # money in units of 2^20: a request of 4096 units prices at 2^32 (4095: just below), beyond the 32-bit amounts of
            # the rating interface
            dict(sl("bigmoney", 300 if q else 3000, MaxSteps=4 if q else 5, TopUps=S(), TrigSets=S("none", "final"), Recharges=False,
                    OpCfgs="{[vl |-> 0, vlp |-> 0, qvt |-> 0, th |-> 512, mqcap |-> 4096]}",
                    **dict(wb, AcctChoices=S((6000, 1), (9000, 2)), Vols=S(0, 4095, 4096), Reqs=S(4095, 4096))), scale=1 << 20),
        ]
    elif pid == "C12":
        base = dict(BadRefs=True, Reqs=S(4), Vols=S(3), TopUps=S(), AcctChoices=S((9, 1)), Limit=6,
                    SinkAnswers=S(204, 200, 400, 500))
        small = dict(TrigSets=S("none", "partial"), Pads=S(0), Modes=S("on"), CreateConts=S(0))
        rich = dict(TrigSets=S("none", "partial", "final"), Pads=S(0, 3), Modes=S("on", "off"), CreateConts=S(0, 2))
        slices = [
            sl("two-subs", 1200 if q else 10000, Subs=S("1", "2"), MaxSess=2, MaxSteps=4 if q else 5, **dict(base, **small)),
            sl("one-sub", 900 if q else 10000, MaxSess=2, MaxSteps=4 if q else 5, **dict(base, **rich)),
            # two rating groups (both may be in the debit mode when one of them is recharged)
            sl("two-rg", 500 if q else 5000, RGs=S("1", "2"), TwoEntries=True, MaxSteps=3 if q else 4,
               **dict(base, BadRefs=False, SinkAnswers=S(204), TrigSets=S("none", "final"), Pads=S(0), Modes=S("on"), CreateConts=S(0))),
            # creates that are refused for their content, for known and unknown subscribers, between the other requests
            sl("bad-create", 500 if q else 5000, BadCreates=S("nonfci", "pdu_noslice", "pdu_noinfo", "badplmn"), MaxSteps=4 if q else 5,
               **dict(base, BadRefs=True, SinkAnswers=S(204), TrigSets=S("none"), Pads=S(0), Modes=S("off"), CreateConts=S(0))),
        ]
    elif pid in ("C02", "C03"):
        base = dict(Reqs=S(4), Vols=S(2), TopUps=S(), Recharges=False, AcctChoices=S((40, 1)))
        addr = sl("addr", 400 if q else 3000, MaxSess=2, MaxSteps=4 if q else 5, CreateConts=S(0), Modes=S("off"),
                  TrigSets=S("none"), AddrKinds=S("none", "v4", "v6", "fqdn", "all"), **base)
        # the consumer's PLMN: two- and three-digit network codes, leading zeros, the test network
        plmn = sl("plmn", 300 if q else 2000, MaxSess=2, MaxSteps=3 if q else 4, CreateConts=S(0), Modes=S("off"), TrigSets=S("none"),
                  PlmnKinds=S("", "208/93", "310/012", "001/01", "001/001", "722/070", "999/999", "460/00"), **base)
        if q:
            slices = [
                sl("sessions", 900, Subs=S("1", "2"), MaxSess=3, MaxSteps=4, CreateConts=S(0, 2), Modes=S("on", "off"),
                   TrigSets=S("none", "partial", "rare"), **base),
                sl("split", 900, MaxSess=2, MaxSteps=5, CreateConts=S(0), Modes=S("on", "off"), Limit=4, Pads=S(0, 2),
                   TrigSets=S("none", "partial", "final"), **base),
                sl("two-rg", 300, RGs=S("1", "2"), TwoEntries=True, MaxSess=2, MaxSteps=3, Modes=S("on", "off"), Limit=6,
                   TrigSets=S("none", "partial", "final"), **base),
                addr, plmn,
                # one-time events of a subscriber that also has sessions (their records share the subscriber's file)
                sl("events", 500, Events=True, EvTypes=S("", "IEC"), MaxSess=2, MaxSteps=4, CreateConts=S(0), Modes=S("off"),
                   TrigSets=S("none", "partial"), **base),
            ]
        else:
            slices = [
                sl("sessions", 10000, Subs=S("1", "2"), MaxSess=3, MaxSteps=5, CreateConts=S(0, 2), Modes=S("on", "off"),
                   TrigSets=S("none", "partial", "rare"), **base),
                sl("split", 10000, MaxSess=2, MaxSteps=5, CreateConts=S(0, 2), Modes=S("on", "off"), Limit=5, Pads=S(0, 2),
                   TrigSets=S("none", "partial", "final"), **base),
                sl("two-rg", 4000, RGs=S("1", "2"), TwoEntries=True, MaxSess=2, MaxSteps=4, Modes=S("on", "off"), Limit=6,
                   TrigSets=S("none", "partial", "final"), **base),
                addr, plmn,
                sl("events", 4000, Events=True, EvTypes=S("", "IEC", "PEC"), MaxSess=2, MaxSteps=5, CreateConts=S(0), Modes=S("off"),
                   TrigSets=S("none", "partial"), **base),
            ]
        if pid == "C02":
            extra = tz_scenarios()
        if pid == "C03":
            extra = size_scenarios(tier)
    elif pid == "C10":
        slices = [
            sl("refs", 1000 if q else 8000, Subs=S("1", "11"), Consumers=S("", "1"), Traffic=S(9), Lrsn0=1, MaxSess=3 if q else 4,
               Modes=S("off"), Reqs=S(), Vols=S(1), TrigSets=S("none"), TopUps=S(), Recharges=False, AcctChoices=S((9, 1)),
               MaxSteps=4 if q else 6),
            # consumers whose names extend one another, charging ids that coincide between consumers, requests that repeat
            # the consumer identification
            sl("names", 800 if q else 6000, Consumers=S("", "smf", "smf-1"), ChidModes=S(0, 5), UpdNfcs="{TRUE, FALSE}", MaxSess=3,
               Modes=S("off"), Reqs=S(), Vols=S(1), TrigSets=S("none"), TopUps=S(), Recharges=False, AcctChoices=S((9, 1)),
               MaxSteps=4 if q else 5),
            # names that need escaping inside a path segment; creates that carry oneTimeEventType (with and without being an
            # event); one-time events between the sessions
            # requests that name references never handed out (the number the next sessions will get), then creates
            sl("future", 400 if q else 3000, Consumers=S("a"), BadRefs=True, MaxSess=3, Modes=S("off"), Reqs=S(), Vols=S(1), TrigSets=S("none"),
               TopUps=S(), Recharges=False, AcctChoices=S((9, 1)), MaxSteps=4 if q else 5),
            # events that carry more usage than one record holds, between creates of the same subscriber and consumer
            sl("bulk", 300 if q else 2000, Consumers=S("a"), Events=True, BulkEvents=S(4000), MaxSess=3,
               Modes=S("off"), Reqs=S(), Vols=S(1), TrigSets=S("none"), TopUps=S(), Recharges=False, AcctChoices=S((9, 1)),
               MaxSteps=4 if q else 5),
            sl("kinds", 800 if q else 6000, Consumers=S("a%41", "x y", "50%"), Events=True, EvTypes=S("", "IEC", "PEC"), MaxSess=2,
               Modes=S("off"), Reqs=S(), Vols=S(1), TrigSets=S("none"), TopUps=S(), Recharges=False, AcctChoices=S((9, 1)),
               MaxSteps=4 if q else 5),
        ]
    if pid == "C10":
        extra = wrap_scenarios()
    return slices, extra


def to_behaviour(hist, bid, padmap, scale=1):
    setup = hist[0]
    # how the consumer numbers its invocations is a presentation parameter of the replay (the model does not depend on it):
    # one counter per behaviour, or -- every second behaviour -- one counter per session (TS 32.290)
    import zlib
    cfg = {k: v for k, v in (setup.get("cfg") or CFG_POOL[0]).items() if k != "mqcap"}
    if cfg == CFG_POOL[0]:
        cfg = CFG_POOL[(zlib.crc32(bid.encode()) // 2) % len(CFG_POOL)]
    b = dict(id=bid, cfg=cfg, scale=scale, isn="session" if zlib.crc32(bid.encode()) % 2 else "", lrsn0=setup["lrsn0"], wb=setup["wb"], ues=sorted(setup["ues"]),
             accts=sorted(setup["accts"], key=lambda a: (a["u"], a["rg"])), steps=[])
    for st in hist[1:]:
        st = {k: x for k, x in st.items() if k != "sig"}
        if "pad" in st:
            st["pad"] = padmap(st["pad"])
        if st.get("bulk"):
            st["usage"] = [dict(rg="1", req=-1, conts=[dict(m="off", vol=1)] * st["bulk"])]
        if st["a"] == "traffic":
            for _ in range(st["n"]):
                b["steps"].append(dict(a="create", u="9", s="t", c="t", onetime=True, usage=[], chid=0, pad=0))
            continue
        b["steps"].append(st)
    return b


def _phase(pid, tier):
    if pid == "C03":
        # verdict-free: the transfer of the written files to the billing domain, against spec/Cgf.tla
        from . import fam_cgf
        return fam_cgf.phase(tier)
    if pid == "C01" and tier == "thorough":
        from . import fam_cgf
        return fam_cgf.ind_phase()
    if pid != "C10":
        return None
    from . import fam_conc
    return fam_conc.create_phase(pid, tier)


def check(pid, tier, replay=None):
    slices, extra = cfg(pid, tier)
    limit = max(x["consts"]["Limit"] for x in slices)
    for x in slices:
        if pid in ("C01", "C06") and not x.get("scale"):   # (the abstract machine's steps are enumerated over 0..8 units)
            # every step of the slice is, per account, a step of the abstract machine AcctInd (refinement, checked by TLC);
            # AcctInd's Conservation is proved inductive by Apalache (./vf extra ind; phase of the thorough tier)
            x["properties"] = ["RefinesAcct"]
        x["consts"] = dict(x["consts"], EmitOneIn=1)
        x["consts"].update(DEV)
        lim = x["consts"]["Limit"]
        x["padmap"] = lambda p, lim=lim: realpad(lim, p)
    return pipe.standard_check(
        pid, tier, family="seq", base_module="ChfSeqMC", consts=slices[0]["consts"], invariants=INV[pid], n_beh=None,
        to_behaviour=None, slices=slices, slice_behaviour=lambda x, h, bid: to_behaviour(h, bid, x["padmap"], x.get("scale", 1)),
        harness_mode="seq", trace_module="ChfSeqTrace", trace_consts={k: core.tla_bool(v) for k, v in DEV.items()},
        clauses=CLAUSES[pid], extra=extra, replay=replay, extra_phase=_phase(pid, tier),
        judge_boundary='"action":"reset"',
        assumptions=[
            "fake in-memory MongoDB stands in for mongod (find/update semantics trusted)",
            "harness projection code and TLV walker trusted; TLC and CommunityModules trusted",
            "rating and account servers reachable, tariff constant within a behaviour",
        ])
