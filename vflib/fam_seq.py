"""ChfSeq family (C01 C02 C03 C06 C10 C12): bounded model checking of spec/ChfSeqMC.tla, behaviours
of the explored graph replayed into the real code, every recorded trace judged by spec/ChfSeqTrace.tla."""
import json
import os
import random
import threading
import time

from . import core

with open(os.path.join(core.SPEC, "dev_flags.json")) as _f:
    DEV = json.load(_f)


def S(*xs):
    """TLA+ set literal of strings/ints/tuples."""
    def one(x):
        if isinstance(x, str):
            return '"%s"' % x
        if isinstance(x, (tuple, list)):
            return "<<" + ", ".join(one(y) for y in x) + ">>"
        return str(x)
    return "{" + ", ".join(one(x) for x in xs) + "}"


BASE = dict(
    Subs=S("1"), RGs=S("1"), Consumers=S("a"), AcctChoices=S((5, 1), (7, 2), (0, 3)),
    Reqs=S(2, 4), Vols=S(0, 1, 3), Modes=S("on"), TrigSets=S("none", "final", "partial"),
    TopUps=S(6), MaxSteps=5, MaxSess=1, Limit=100, Pads=S(0), CreateConts=S(0),
    TwoEntries=False, BadRefs=False, WellBehaved=False, Lrsn0=0, Recharges=True, Traffic=S(),
)

# clause -> invariant of ChfSeqMC that states it on the model
INV = {
    "C01": ["InvConservation"],
    "C06": ["InvNoOverdraft", "InvGrantAffordable"],
    "C02": ["InvExactlyOnce", "InvRecordIdentity"],
    "C03": ["InvRecordWithinLimit"],
    "C10": ["InvRefUnique", "InvExactlyOnce"],
    "C12": ["InvRejectionNoEffect"],
}

# which judged clauses decide which property
CLAUSES = {
    "C01": {("C01", "conservation")},
    "C06": {("C06", "no_overdraft"), ("C06", "grant_affordable")},
    "C02": {("C02", "exactly_once"), ("C02", "record_identity"), ("C02", "opening_time"),
            ("C02", "cause_partial"), ("C02", "cause_normal")},
    "C03": {("C03", "file_well_formed"), ("C03", "record_within_limit")},
    "C10": {("C10", "ref_unique"), ("C10", "ref_designates")},
    "C12": {("C12", "create_contract"), ("C12", "update_contract"), ("C12", "release_contract"),
            ("C12", "unknown_is_4xx"), ("C12", "rejection_no_effect"), ("C12", "recharge_contract"),
            ("C12", "recharge_unknown_notifies")},
}

def realpad(limit, pad):
    """Real serviceSpecificationInfo size that leaves about as many container slots as the model's pad."""
    return 0 if pad == 0 else 65430 - 45 * (limit - 1 - pad)


def tz_scenarios():
    """C02: one create/update/release per host time-zone offset (positive, negative, non-hour-aligned)."""
    out = []
    for i, tz in enumerate([0, 3600, 19800, 20700, 50400, -1800, -12600, -43200, 45900, -34200]):
        out.append(dict(id="C02-tz%d" % i, lrsn0=3, wb=False, ues=["1"],
                        accts=[dict(u="1", rg="1", quota=50, cost="1")],
                        steps=[dict(a="create", u="1", s="s1", c="a", chid=5, tz=tz,
                                    usage=[dict(rg="1", req=-1, conts=[dict(m="off", vol=2)])]),
                               dict(a="update", u="1", s="s1", usage=[dict(rg="1", req=4, conts=[dict(m="on", vol=0)])]),
                               dict(a="release", u="1", s="s1", usage=[], trig=[])]))
    return out


def cfg(pid, tier):
    c = dict(BASE)
    n_beh, emit = 160, 40
    extra = []
    if pid == "C01":
        if tier == "quick":
            c.update(MaxSteps=5)
            n_beh, emit = 200, 100
        else:
            c.update(Subs=S("1", "2"), RGs=S("1", "2"), AcctChoices=S((5, 1), (9, 2)), MaxSteps=5, MaxSess=2,
                     Vols=S(0, 3), Reqs=S(4), TwoEntries=False)
            n_beh, emit = 6000, 40
    elif pid == "C06":
        c.update(WellBehaved=True, AcctChoices=S((5, 1), (7, 2), (0, 3), (3, 2)), Reqs=S(2, 4), Vols=S(0, 1, 2, 4),
                 TopUps=S(6))
        if tier == "quick":
            c.update(MaxSteps=5)
            n_beh, emit = 200, 60
        else:
            c.update(MaxSteps=6)
            n_beh, emit = 6000, 60
    elif pid == "C12":
        c.update(Subs=S("1", "2"), BadRefs=True, MaxSess=2, Reqs=S(4), Vols=S(0, 3), TrigSets=S("none", "final"),
                 TopUps=S(), AcctChoices=S((9, 1)))
        if tier == "quick":
            c.update(MaxSteps=4)
            n_beh, emit = 220, 60
        else:
            c.update(MaxSteps=5)
            n_beh, emit = 5000, 200
    elif pid in ("C02", "C03"):
        c.update(Subs=S("1", "2"), MaxSess=3, CreateConts=S(0, 2), Modes=S("on", "off"), Limit=6, Pads=S(0, 3),
                 Reqs=S(4), Vols=S(0, 2), TrigSets=S("none", "partial", "final"), TopUps=S(), Recharges=False,
                 AcctChoices=S((40, 1)), TwoEntries=(tier == "thorough"))
        if tier == "quick":
            c.update(MaxSteps=4)
            n_beh, emit = 220, 100
        else:
            c.update(MaxSteps=5)
            n_beh, emit = 5000, 400
        if pid == "C02":
            extra = tz_scenarios()
    elif pid == "C10":
        c.update(Subs=S("1", "11"), Consumers=S("", "1"), Traffic=S(9), Lrsn0=1, MaxSess=3, Modes=S("off"),
                 Reqs=S(), Vols=S(1), TrigSets=S("none"), TopUps=S(), Recharges=False, AcctChoices=S((9, 1)))
        if tier == "quick":
            c.update(MaxSteps=4)
            n_beh, emit = 220, 10
        else:
            c.update(MaxSteps=6, MaxSess=4)
            n_beh, emit = 5000, 100
    return c, n_beh, emit, extra


def mc_module(consts):
    """Wrapper module: set-valued constants are definitions substituted with `<-`."""
    lines = ["---- MODULE MCrun ----", "EXTENDS ChfSeqMC"]
    over, plain = {}, {}
    for k, v in consts.items():
        if isinstance(v, bool):
            plain[k] = core.tla_bool(v)
        elif isinstance(v, int):
            plain[k] = str(v)
        else:
            lines.append("c_%s == %s" % (k, v))
            over[k] = "c_" + k
    lines.append("====")
    return "\n".join(lines) + "\n", plain, over


def to_behaviour(hist, bid, padmap):
    setup = hist[0]
    b = dict(id=bid, lrsn0=setup["lrsn0"], wb=setup["wb"], ues=sorted(setup["ues"]),
             accts=sorted(setup["accts"], key=lambda a: (a["u"], a["rg"])), steps=[])
    for st in hist[1:]:
        st = dict(st)
        if "pad" in st:
            st["pad"] = padmap(st["pad"])
        if st["a"] == "traffic":
            for _ in range(st["n"]):
                b["steps"].append(dict(a="create", u="9", s="t", c="t", onetime=True, usage=[], chid=0, pad=0))
            continue
        b["steps"].append(st)
    return b


def select(behs, n, rnd):
    """Keep the longest behaviours preferentially (they contain the shorter ones as prefixes)."""
    if len(behs) <= n:
        return behs
    behs = sorted(behs, key=lambda h: -len(h))
    head = behs[: max(n * 3, n)]
    rnd.shuffle(head)
    pick = head[: n * 3 // 4]
    rest = behs[len(head):]
    rnd.shuffle(rest)
    pick += rest[: n - len(pick)]
    if len(pick) < n:
        pick += head[n * 3 // 4: n * 3 // 4 + (n - len(pick))]
    return pick


def run_behaviours(sc, vfh, behs, nworkers=None):
    """Execute behaviours on the real code in parallel worker processes; return path of concatenated trace."""
    nworkers = nworkers or min(12, core.NCPU, max(1, len(behs) // 4))
    chunk = 40
    jobs = []
    wd = sc.path("run%d" % int(time.time() * 1000 % 1e9))
    os.makedirs(wd)
    for i in range(0, len(behs), chunk):
        inp = os.path.join(wd, "b%d.json" % i)
        with open(inp, "w") as f:
            json.dump(behs[i:i + chunk], f)
        jobs.append((inp, os.path.join(wd, "t%d.ndjson" % i)))
    cmds = []
    for j, (inp, outp) in enumerate(jobs):
        cmds.append([vfh, "seq", "%d%03d" % (1 + os.getpid() % 9, j), inp, outp])
    res = core.run_parallel(cmds, nworkers, timeout=3600, errdir=wd)
    for (rc, err), c in zip(res, cmds):
        if rc != 0:
            raise core.MachineryError("harness worker failed rc=%s: %s\n%s" % (rc, " ".join(c), err))
    allp = os.path.join(wd, "all.ndjson")
    nlines = 0
    with open(allp, "w") as out:
        for _, outp in jobs:
            with open(outp) as f:
                for line in f:
                    out.write(line)
                    nlines += 1
    return allp, nlines


def judge(sc, trace_path, nlines):
    consts = {k: core.tla_bool(v) for k, v in DEV.items()}
    consts["TraceFile"] = '"trace.ndjson"'
    r = core.tlc(sc, "ChfSeqTrace", core.cfg_text("TSpec", consts), workers=1, timeout=3600,
                 files={"trace.ndjson": trace_path}, heap="12g")
    out = list(core.tagged_lines(r["outfile"], "VF-RESULT"))
    if len(out) != 1:
        raise core.MachineryError("judge produced no result line:\n" + r["tail"][-3000:])
    res = out[0]
    if res["consumed"] != nlines:
        raise core.MachineryError("judge consumed %d of %d trace lines" % (res["consumed"], nlines))
    return res


def trace_lines(trace_path, tid):
    out = []
    with open(trace_path) as f:
        for line in f:
            if '"trace":"%s"' % tid in line:
                out.append(json.loads(line))
    return out


def check(pid, tier, replay=None):
    v = core.Verdict(pid, tier)
    sc = core.Scratch(pid)
    rnd = random.Random(core.seed())
    consts, n_beh, emit, extra = cfg(pid, tier)
    limit = consts["Limit"]

    def padmap(p):
        return realpad(limit, p)

    build = {}

    def do_build():
        try:
            build["vfh"] = sc.build()
        except Exception as e:  # noqa
            build["err"] = e
    th = threading.Thread(target=do_build)
    th.start()

    mc = dict(generated=0, distinct=0)
    behs = []
    if replay is None:
        consts = dict(consts, EmitOneIn=emit)
        consts.update(DEV)
        mod, plain, over = mc_module(consts)
        ct = core.cfg_text("Spec", plain, over, invariants=INV[pid], view="View", action_constraints=["EmitBehaviour"])
        mc = core.tlc(sc, "MCrun", ct, extra_modules={"MCrun.tla": mod}, workers=min(8, core.NCPU), seed_=core.seed(),
                      timeout=7200 if tier == "thorough" else 900)
        cex = []
        if mc["violated"]:
            # A counterexample on the model alone is not a verdict (DESIGN 0.4): it is replayed into the
            # real code together with the generated behaviours; only what the code does is judged.
            cex = list(core.tagged_lines(mc["outfile"], "VF-CEX"))[:3]
            v.notes.append("the specification (as-is model) admits a violation of %s; counterexample replayed "
                           "into the implementation" % mc["violated"])
            mc_inv = mc
            ct = core.cfg_text("Spec", plain, over, invariants=[], view="View", action_constraints=["EmitBehaviour"])
            mc = core.tlc(sc, "MCrun", ct, extra_modules={"MCrun.tla": mod}, workers=min(8, core.NCPU),
                          seed_=core.seed(), timeout=7200 if tier == "thorough" else 900)
            mc["violated"] = mc_inv["violated"]
        hists = list(core.tagged_lines(mc["outfile"], "VF-BEH"))
        hists = select(hists, n_beh, rnd)
        behs = [to_behaviour(h, "%s-cex%d" % (pid, i), padmap) for i, h in enumerate(cex)]
        behs += [to_behaviour(h, "%s-%d" % (pid, i), padmap) for i, h in enumerate(hists)]
        behs += extra
    else:
        with open(replay) as f:
            behs = [json.load(f)["behaviour"]]
    th.join()
    if "err" in build:
        raise build["err"]
    trace, nlines = run_behaviours(sc, build["vfh"], behs)
    res = judge(sc, trace, nlines)
    bymap = {b["id"]: b for b in behs}
    mine = [x for x in res["viol"] if (x["prop"], x["clause"]) in CLAUSES[pid]]
    for x in sorted(mine, key=lambda x: (x["trace"], x["step"])):
        v.add(x, dict(family="seq", property=pid, behaviour=bymap.get(x["trace"]), violation=x,
                      trace=trace_lines(trace, x["trace"])))
    ndiv = len(res["div"])
    if ndiv:
        v.notes.append("divergences from the as-is model (no verdict): %d; e.g. %s" % (
            ndiv, json.dumps(sorted(res["div"], key=lambda d: (d["trace"], d["step"]))[:3])))
    steps = sum(len(b["steps"]) for b in behs)
    cov = dict(
        states=max(mc["distinct"], 1), transitions=max(mc["generated"], 1),
        traces_validated_against_impl=len(behs), impl_steps_judged=steps,
        divergences=ndiv, model_invariants=INV[pid], model_invariant_violated=mc.get("violated"), clauses=sorted("%s.%s" % c for c in CLAUSES[pid]),
        exhaustive=False,
        explanation="TLC explored the bounded ChfSeqMC model exhaustively (constants in 'constants'); a seeded sample of "
                    "the explored transitions (behaviour = shortest path to the source state + the transition) was "
                    "executed on the real code and every recorded step judged by ChfSeqTrace",
        constants={k: str(x) for k, x in consts.items()},
        samples=[behs[i] for i in range(min(2, len(behs)))],
    )
    return v.finish("model_checking", cov, [
        "fake in-memory MongoDB stands in for mongod (find/update semantics trusted)",
        "harness projection code and TLV walker trusted; TLC and CommunityModules trusted",
        "rating and account servers reachable, tariff constant within a behaviour",
    ])
