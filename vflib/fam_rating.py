"""C08: rating server and CHF-side tariff decoding (spec/Rating.tla, RatingMC.tla, RatingTrace.tla)."""
import json
import os

from . import core, pipe
from .pipe import S, tla_limbs

with open(os.path.join(core.SPEC, "dev_flags.json")) as _f:
    DEV = json.load(_f)

TEXTS_Q = ["", "0", "1", "7", "10", "007", "1.5", "0.1", ".5", "5.", "1.2.3", "-1", "1e3", " 1", "abc", "65536", "+3", "4294967296", "0.008388608", "0.016777216", "8589934592"]
TEXTS_T = TEXTS_Q + ["2", "3", "13", "100", "999", "00", "000", "+0", "-0", "0.0", "1.", "4294967295", "65537", "1_0", "0x10", "٣"]


def chars(t):
    return "<<" + ", ".join('"%s"' % c.replace("\\", "\\\\").replace('"', '\\"') for c in t) + ">>"


def cfg(tier):
    vals = [0, 1, 6, 7, 8, 2**16, 2**31 - 1, 2**32 - 1]
    if tier == "thorough":
        vals += [2, 9, 10, 11, 69, 70, 71, 999, 1000, 2**16 - 1, 2**16 + 1, 2**31, 2**31 + 1, 2**32 - 2, 12345678, 3 * 2**30]
    texts = TEXTS_Q if tier == "quick" else TEXTS_T
    # boundary of the domain "exact price fits the Unsigned32 Price AVP": floor((2^32-1)/cost) and its neighbours,
    # for every plain integer tariff among the texts
    top = 2**32 - 1
    for t in texts:
        if t.isdigit() and 1 < int(t) <= top:
            q = top // int(t)
            vals += [x for x in (q - 1, q, q + 1) if 0 <= x <= top]
    vals = sorted(set(vals))
    return dict(CostTexts="{" + ", ".join(chars(t) for t in texts) + "}",
                Subs=S("debit", "reserve", "aoc", "release"),
                Values="{" + ", ".join(tla_limbs(v) for v in vals) + "}",
                Others="{" + ", ".join(tla_limbs(v) for v in (0, 3)) + "}", EmitOneIn=1), 100000


SEEN = []


def to_behaviour(hist, bid):
    c = hist[0]
    b = dict(id=bid, cost=c["cost"], sub=c["sub"], consumed=c["consumed"], quota=c["quota"], steps=[1])
    SEEN.append(b)
    return b


class Batches:
    """Concurrent half: the enumerated cases with a plain integer tariff, regrouped (seeded) into batches whose members
    are sent at the same moment for different subscribers over different connections.  Evaluated lazily, after the
    model's cases have been collected."""

    def __init__(self, tier):
        self.tier = tier

    def __iter__(self):
        import random
        rnd = random.Random(core.seed())
        plain = [b for b in SEEN if "".join(b["cost"]).isdigit() and 0 < int("".join(b["cost"])) < 2**16 and b["sub"] in ("debit", "reserve")]
        rnd.shuffle(plain)
        nb = 6 if self.tier == "quick" else 40
        # a peer that keeps its connection and stays quiet for a while before it asks again
        from .pipe import limbs
        for k, (ms, sub, used, money) in enumerate([(4000, "debit", 3, 0), (4000, "reserve", 0, 100)] +
                                                   ([] if self.tier == "quick" else [(9000, "debit", 5, 0), (31000, "reserve", 0, 50)])):
            yield dict(id="C08-idle%d" % k, cost=["7"], sub=sub, consumed=limbs(used), quota=limbs(money), steps=[1], pause=ms)
        # a tariff that changes between two reads of the store while one request is served
        k = 0
        for a, b in [("2", "3"), ("3", "2"), ("1", "7"), ("10", "3"), ("4", "5")]:
            for sub, used, money in (("debit", 6, 0), ("reserve", 0, 100), ("debit", 25, 0), ("reserve", 0, 59)):
                yield dict(id="C08-flip%d" % k, cost=[], sub=sub, consumed=[], quota=[], steps=[1], flip=[a, b], used=used, money=money)
                k += 1
        for i in range(nb):
            members = plain[i * 16:(i + 1) * 16]
            if len(members) < 2:
                break
            yield dict(id="C08-batch%d" % i, cost=[], sub="", consumed=[], quota=[], steps=[1] * (len(members) * 5),
                       batch=[dict(id="m", cost=m["cost"], sub=m["sub"], consumed=m["consumed"], quota=m["quota"]) for m in members], rounds=5)


def check(pid, tier, replay=None):
    consts, n_beh = cfg(tier)
    dev = {"DEV_ZeroCostDivides": DEV["DEV_ZeroCostDivides"]}
    consts.update(dev)
    return pipe.standard_check(
        pid, tier, family="rating", base_module="RatingMC", consts=consts, invariants=["InvModelClauses"], n_beh=n_beh,
        to_behaviour=to_behaviour, harness_mode="rating", trace_module="RatingTrace",
        trace_consts={k: core.tla_bool(v) for k, v in dev.items()}, clauses=None, replay=replay, chunk=24, extra=Batches(tier),
        explanation="TLC enumerated every (stored unit-cost text, request sub-type, boundary value) case of RatingMC and "
                    "checked the exactness clauses on the model; EVERY case was then executed against the real rating "
                    "server over TLS Diameter (request, one-unit probe, CHF-side getUnitCost) and judged by RatingTrace",
        assumptions=["fake in-memory MongoDB stands in for mongod", "harness Diameter client (go-diameter) trusted",
                     "exact prices modelled for plain non-negative integer tariffs; fractional/negative/garbage tariffs are "
                     "only required to be answered and to decode identically at the CHF"])
