"""C08: rating server and CHF-side tariff decoding (spec/Rating.tla, RatingMC.tla, RatingTrace.tla)."""
import json
import os

from . import core, pipe
from .pipe import S, tla_limbs

with open(os.path.join(core.SPEC, "dev_flags.json")) as _f:
    DEV = json.load(_f)

TEXTS_Q = ["", "0", "1", "7", "10", "007", "1.5", "0.1", ".5", "5.", "1.2.3", "-1", "1e3", " 1", "abc", "65536", "+3", "4294967296", "0.008388608", "0.016777216", "8589934592"]
TEXTS_T = TEXTS_Q + ["2", "3", "13", "100", "999", "00", "000", "+0", "-0", "0.0", "1.", "4294967295", "65537", "1_0", "0x10", "٣"]


def chars(t):
    return "<<" + ", ".join('"%s"' % c.replace("\\", "\\\\").replace('"', '\\"') for c in t) + ">>"


def cfg(tier):
    vals = [0, 1, 6, 7, 8, 2**16, 2**31 - 1, 2**32 - 1]
    if tier == "thorough":
        vals += [2, 9, 10, 11, 69, 70, 71, 999, 1000, 2**16 - 1, 2**16 + 1, 2**31, 2**31 + 1, 2**32 - 2, 12345678, 3 * 2**30]
    texts = TEXTS_Q if tier == "quick" else TEXTS_T
    return dict(CostTexts="{" + ", ".join(chars(t) for t in texts) + "}",
                Subs=S("debit", "reserve", "aoc", "release"),
                Values="{" + ", ".join(tla_limbs(v) for v in vals) + "}", EmitOneIn=1), 100000


def to_behaviour(hist, bid):
    c = hist[0]
    return dict(id=bid, cost=c["cost"], sub=c["sub"], consumed=c["consumed"], quota=c["quota"], steps=[1])


def check(pid, tier, replay=None):
    consts, n_beh = cfg(tier)
    dev = {"DEV_ZeroCostDivides": DEV["DEV_ZeroCostDivides"]}
    consts.update(dev)
    return pipe.standard_check(
        pid, tier, family="rating", base_module="RatingMC", consts=consts, invariants=["InvModelClauses"], n_beh=n_beh,
        to_behaviour=to_behaviour, harness_mode="rating", trace_module="RatingTrace",
        trace_consts={k: core.tla_bool(v) for k, v in dev.items()}, clauses=None, replay=replay, chunk=24,
        explanation="TLC enumerated every (stored unit-cost text, request sub-type, boundary value) case of RatingMC and "
                    "checked the exactness clauses on the model; EVERY case was then executed against the real rating "
                    "server over TLS Diameter (request, one-unit probe, CHF-side getUnitCost) and judged by RatingTrace",
        assumptions=["fake in-memory MongoDB stands in for mongod", "harness Diameter client (go-diameter) trusted",
                     "exact prices modelled for plain non-negative integer tariffs; fractional/negative/garbage tariffs are "
                     "only required to be answered and to decode identically at the CHF"])
