"""C20: configurations (spec/Config.tla, ConfigTrace.tla)."""
import json
import os

from . import core, pipe

with open(os.path.join(core.SPEC, "dev_flags.json")) as _f:
    DEV = json.load(_f)

BASELINE = dict(info="ok", logger="ok", name="ok", sbi="ok", scheme="http", sbitls="present", rf="ok", abmf="ok", cgf="ok",
                mongo="ok", svc="one", nrf="ok", keylog="none")


def diameter(name, v, port):
    if v == "absent":
        return []
    out = ["  %s:" % name, "    protocol: %s" % ("sctp" if v in ("sctp", "sctpnotls") else "tcp")]
    if v == "name":
        out.append("    hostIPv4: localhost")          # a host NAME is legal for the `host` validator
    elif v == "badname":
        out.append("    hostIPv4: diameter.chf.invalid")   # ... also one that does not resolve
    elif v != "nohost":
        out.append("    hostIPv4: 127.0.0.1")
    out.append("    port: %s" % {"port0": "0", "port65536": "65536"}.get(v, port))
    if v not in ("notls", "sctpnotls"):
        out += ["    tls:", "      pem: {PEM}", "      key: {KEY}"]
    return out


def yaml_of(c):
    y = []
    if c["info"] != "absent":
        y += ["info:", "  version: %s" % ("1.0.3" if c["info"] == "ok" else "9.9.9"), "  description: vf"]
    y.append("configuration:")
    if c["name"] == "ok":
        y.append("  chfName: CHF")
    if c["sbi"] != "absent":
        y.append("  sbi:")
        if c["scheme"] != "empty":
            y.append("    scheme: %s" % c["scheme"])
        y += ["    registerIPv4: 127.0.0.1", "    bindingIPv4: 127.0.0.1", "    port: %s" % ("0" if c["sbi"] == "port0" else "{SBI}")]
        if c["sbitls"] == "present":
            y += ["    tls:", "      pem: {PEM}", "      key: {KEY}"]
    svc = {"one": ["nchf-convergedcharging"],
           "three": ["nchf-convergedcharging", "nchf-offlineonlycharging", "nchf-spendinglimitcontrol"],
           "unknown": ["nchf-convergedcharging", "nudm-sdm"], "empty": [],
           "dup": ["nchf-convergedcharging", "nchf-convergedcharging"],
           "case": ["Nchf-ConvergedCharging"]}[c["svc"]]
    if svc:
        y.append("  serviceNameList:")
        y += ["    - %s" % s for s in svc]
    if c["nrf"] != "absent":
        y.append("  nrfUri: %s" % ("http://127.0.0.10:8000" if c["nrf"] == "ok" else "not a url"))
    if c["mongo"] != "absent":
        y += ["  mongodb:", "    name: free5gc"]
        if c["mongo"] == "ok":
            y.append("    url: {MONGO}")
        elif c["mongo"] == "unix":
            # a Unix domain socket in the percent-encoded form MongoDB connection strings use (not a URL net/url accepts)
            y.append("    url: {MONGOUNIX}")
    y += ["  volumeLimit: 50000", "  volumeLimitPDU: 10000", "  reserveQuotaRatio: 5", "  volumeThresholdRate: 0.8", "  quotaValidityTime: 10000"]
    y += diameter("rfDiameter", c["rf"], "{RF}")
    y += diameter("abmfDiameter", c["abmf"], "{AB}")
    if c["cgf"] != "absent":
        y += ["  cgf:", "    enable: %s" % ("true" if c["cgf"] == "enabled" else "true"), "    hostIPv4: 127.0.0.1", "    port: 2121",
              "    listenPort: 2122", "    passiveTransferPortRange:", "      start: 2123", "      end: 2130",
              "    tls:", "      pem: {PEM}", "      key: {KEY}", "    cdrFilePath: /tmp"]
    if c["logger"] != "absent":
        y += ["logger:", "  enable: true", "  level: %s" % ("info" if c["logger"] == "ok" else "loud"), "  reportCaller: false"]
    return "\n".join(y) + "\n"


def to_case(hist, bid):
    h = hist[0]
    return dict(id=bid, cfg=h["cfg"], baseline=BASELINE, valid=h["valid"], must_reject=h["must_reject"], yaml=yaml_of(h["cfg"]),
                keylog=h["cfg"].get("keylog") == "set", steps=[1])


def _life(tier):
    """Verdict-free: the whole life cycle (start with NRF registration and CGF, serve, terminate) against spec/AppLife.tla."""
    def ph(sc, v):
        try:
            from . import fam_cgf
            return fam_cgf.run_life(sc, tier, v.notes)
        except Exception as e:
            v.notes.append("life-cycle phase could not run: %s" % str(e)[:300])
            return dict(life_phase="not run")
    return ph


def check(pid, tier, replay=None):
    consts = dict(DEV_TlsOptional=DEV["DEV_TlsOptional"], DEV_HttpsWithoutTls=DEV["DEV_HttpsWithoutTls"],
                  DEV_DuplicatesAccepted=DEV["DEV_DuplicatesAccepted"], MaxDist=2 if tier == "quick" else 3,
                  EmitOneIn=1 if tier == "quick" else 2)
    return pipe.standard_check(
        pid, tier, family="config", base_module="Config", consts=consts,
        invariants=["InvValidStarts", "InvMustRejectInvalid"], n_beh=900 if tier == "quick" else 9000,
        to_behaviour=to_case, harness_mode="config", trace_module="ConfigTrace", trace_consts={}, clauses=None,
        replay=replay, chunk=12, extra_phase=_life(tier),
        explanation="TLC checked on all 1 215 000 abstract configurations that whatever validation accepts guarantees every section "
                    "the start-up reads; the configurations within MaxDist changes of the valid baseline were rendered to YAML, "
                    "given to the real factory.ReadConfig, and every accepted one was used in a separate process to initialise the "
                    "context, open the rating / account-balance / SBI components and serve one online update",
        assumptions=["CGF (FTP) server not started", "NRF registration skipped (SBI listener started directly)",
                     "fake in-memory MongoDB", "a graceful error return from NewApp/NewServer is not a crash"])
