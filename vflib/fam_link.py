"""C18 / C19: Diameter transport per subscriber (spec/DiamLink.tla, DiamLinkTrace.tla)."""
import json
import os
import random

from . import core, pipe

with open(os.path.join(core.SPEC, "dev_flags.json")) as _f:
    DEV = json.load(_f)

CL = {"C18": {("C18", "connections_bounded"), ("C18", "tasks_bounded")},
      "C19": {("C19", "no_wedge"), ("C19", "answer_matches_request"), ("C19", "request_fails_cleanly"), ("C19", "later_request_completes")}}


def check(pid, tier, replay=None):
    v = core.Verdict(pid, tier)
    sc = core.Scratch(pid)
    builder = pipe.Builder(sc)
    rnd = random.Random(core.seed())
    consts = dict(NReq=3, DEV_ConnNeverClosed=DEV["DEV_ConnNeverClosed"], DEV_BlockingHandoff=DEV["DEV_BlockingHandoff"], EmitOneIn=1)
    inv = "InvC19" if pid == "C19" else "InvC18"
    mc, hists, cex = pipe.explore(sc, "DiamLink", consts, [inv], tier, notes=v.notes)
    if pid == "C19":
        fates = sorted(set(tuple(h[0]["fates"][str(i)] if isinstance(h[0]["fates"], dict) else h[0]["fates"][i - 1]
                                 for i in (1, 2, 3)) for h in hists + cex))
        fates = [f for f in fates if "none" not in f and any(x != "prompt" for x in f)] + [("prompt", "prompt", "prompt")]
        # the model's request n is mapped onto the real traffic in several ways: the account debit of update n; the
        # reservation (2), first (1) or last (3) rating request of update n; or ("dense") the n-th rating request of
        # ONE update, so that "late during the next request" also means the next request of the same update
        cases = [dict(id="C19-abmf-%d" % i, iface="abmf", fates=list(f), pos=0, dense=False) for i, f in enumerate(fates)]
        for pos in (2, 1, 3):
            cases += [dict(id="C19-rating%d-%d" % (pos, i), iface="rating", fates=list(f), pos=pos, dense=False) for i, f in enumerate(fates)]
        cases += [dict(id="C19-dense-%d" % i, iface="rating", fates=list(f), pos=0, dense=True) for i, f in enumerate(fates)]
        cross = [dict(id="C19-cross-%s" % ifc, iface=ifc, fates=["prompt"], pos=0, dense=False, cross=True) for ifc in ("abmf", "rating")]
        if tier == "quick":
            must = [c for c in cases if c["fates"][0] in ("late_idle", "late_during_next") and c["fates"][1] == "prompt" and c["fates"][2] == "prompt"]
            rest = [c for c in cases if c not in must]
            rnd.shuffle(rest)
            cases = must + rest[:10]
        cases += cross
        # one subscriber, two charging sessions: the release of one (answers held for 2 s, or lost) followed at once by
        # updates of the other
        for ifc, pos in (("abmf", 0), ("rating", 1), ("rating", 2)):
            for f0 in ("slow", "drop"):
                cases.append(dict(id="C19-rel-%s%d-%s" % (ifc, pos, f0), iface=ifc, fates=[f0, "prompt", "prompt"], pos=pos, dense=False, release2=True))
        # recharge notifications for another rating group arriving while the updates are served
        for ifc, pos in (("rating", 1), ("rating", 2), ("abmf", 0)):
            for f0 in ("slow", "drop"):
                cases.append(dict(id="C19-rech-%s%d-%s" % (ifc, pos, f0), iface=ifc, fates=[f0, "prompt", "prompt"], pos=pos, dense=False, recharge=True))
        # two sessions of the subscriber that number their invocations independently, served in turn
        for ifc, pos in (("rating", 1), ("rating", 2), ("abmf", 0)):
            for f0 in ("late_idle", "drop"):
                cases.append(dict(id="C19-alt-%s%d-%s" % (ifc, pos, f0), iface=ifc, fates=[f0, "prompt", "prompt", "prompt"], pos=pos, dense=False, alt=True))
        mode, chunk, nw = "link", 1, 16
    else:
        if tier == "quick":
            cases = [dict(id="C18-a", n=10, subs=1, finalAt=0), dict(id="C18-b", n=100, subs=1, finalAt=4), dict(id="C18-c", n=100, subs=3, finalAt=0),
                     # peers that misbehave at connection level: capabilities exchange completing 2.5 s late on every third
                     # rating connection; the account peer closing every second connection right after the exchange
                     dict(id="C18-g", n=4, subs=2, finalAt=0, peerFault="slowcea"), dict(id="C18-h", n=12, subs=6, finalAt=0, peerFault="dropaftercea"),
                     # every update by a subscriber the CHF has not seen before (what a subscriber context keeps alive counts)
                     dict(id="C18-i", n=40, subs=1, finalAt=0, newSubs=True),
                     # reports of varying size (below, equal to and beyond the grant; nothing), every second one final: the
                     # settlement paths (refund, termination debit) next to the reserving one
                     dict(id="C18-j", n=48, subs=2, finalAt=2, used=[10, 5, 12, 0, 10]),
                     # the store fails every fourth write (a transient error): the request concerned may fail, nothing stays behind
                     dict(id="C18-l", n=24, subs=2, finalAt=0, dbFailEvery=4)]
        else:
            cases = [dict(id="C18-a", n=10, subs=1, finalAt=0), dict(id="C18-b", n=100, subs=1, finalAt=4), dict(id="C18-c", n=1000, subs=3, finalAt=5),
                     dict(id="C18-d", n=1000, subs=1, finalAt=0), dict(id="C18-e", n=300, subs=8, finalAt=3), dict(id="C18-f", n=6, subs=6, finalAt=0, noAcct=True),
                     dict(id="C18-g", n=12, subs=3, finalAt=0, peerFault="slowcea"), dict(id="C18-h", n=60, subs=6, finalAt=0, peerFault="dropaftercea"),
                     dict(id="C18-i", n=400, subs=1, finalAt=0, newSubs=True),
                     dict(id="C18-j", n=600, subs=2, finalAt=2, used=[10, 5, 12, 0, 10]), dict(id="C18-k", n=300, subs=3, finalAt=3, used=[10, 11]),
                     dict(id="C18-l", n=120, subs=3, finalAt=0, dbFailEvery=4), dict(id="C18-m", n=60, subs=2, finalAt=3, dbFailEvery=3, used=[10, 5, 12])]
        mode, chunk, nw = "leak", 1, 6
    if replay:
        with open(replay) as f:
            cases = [json.load(f)["behaviour"]]
    for c in cases:
        c["steps"] = [1]
    vfh = builder.get()
    trace, nlines = pipe.run_harness(sc, vfh, mode, cases, chunk=chunk, nworkers=nw, timeout=3000)
    res = pipe.judge(sc, "DiamLinkTrace", {"ConnBound": "2", "TaskBound": "8"}, trace, nlines)
    bymap = {c["id"]: c for c in cases}
    mine = [x for x in res["viol"] if (x["prop"], x["clause"]) in CL[pid]]
    for x in res["viol"]:
        # (updates that failed AND left connections / tasks behind are reported as what they are)
        if x["clause"] == "harness_updates_failed" and not [y for y in mine if y["trace"] == x["trace"]]:
            raise core.MachineryError("C18 driver: updates against the real servers failed: %s" % x)
    for x in sorted(mine, key=lambda x: (str(x["trace"]), x["step"])):
        v.add(x, dict(family="link", property=pid, behaviour=bymap.get(x["trace"]), violation=x, trace=pipe.trace_lines(trace, x["trace"])))
    cov = dict(states=max(mc["distinct"], 1), transitions=max(mc["generated"], 1), traces_validated_against_impl=len(cases),
               model_invariants=[inv], model_invariant_violated=mc.get("violated"), clauses=sorted("%s.%s" % c for c in CL[pid]),
               exhaustive=False, constants={k: str(x) for k, x in consts.items()}, samples=cases[:3],
               explanation="TLC explored every interleaving of 3 consecutive requests of one subscriber with a peer that answers promptly, "
                           "late (while idle / during the next request) or never, and a serving task that hands answers over under the mux "
                           "read lock; " + ("the distinct fate vectors were replayed against the real CHF with harness-owned rating / account "
                           "peers that tag every answer" if pid == "C19" else "request histories of growing length were run against the real "
                           "servers while sampling established connections (/proc/self/net/tcp) and goroutines"))
    return v.finish("model_checking", cov, [
        "the 5 s client timeout is hard-coded: each late/dropped answer costs 5 s of wall clock",
        "bounds: <= 2 established Diameter connections and <= 8 tasks above the warmed-up baseline at every sample (0 and 0 observed on the repaired tree)",
        "harness peers built on go-diameter sm; rating requests of one update are attributed by arrival order",
    ])
