"""C11: request shapes through the real router (spec/Http.tla, HttpTrace.tla)."""
import json
import os

from . import core, pipe
from .pipe import S

with open(os.path.join(core.SPEC, "dev_flags.json")) as _f:
    DEV = json.load(_f)

SUPI = {"imsi": "imsi-{P}1", "imsiempty": "imsi-", "nodash": "imsi{P}1", "slash": "imsi-{P}1/../x", "nai": "nai-{P}1@x",
        "long": "imsi-{P}1" + "7" * 300}
PLMN = {"ok": {"mcc": "208", "mnc": "93"}, "ok3": {"mcc": "208", "mnc": "093"}, "shortmcc": {"mcc": "20", "mnc": "93"},
        "shortmnc": {"mcc": "208", "mnc": "9"}, "emptymnc": {"mcc": "208", "mnc": ""},
        "multibyte": {"mcc": "\u20ac", "mnc": "93"},
        # parts of the wrong length whose concatenation has a legal length (5 or 6 digits)
        "mcc2mnc3": {"mcc": "20", "mnc": "893"}, "mcc4mnc1": {"mcc": "2089", "mnc": "3"}, "mcc5": {"mcc": "20893", "mnc": ""},
        "mnc5": {"mcc": "", "mnc": "20893"}, "mcc4mnc2": {"mcc": "2089", "mnc": "30"},
        # the subscriber's own network: the MCC is the first three digits of the (5-digit) IMSI of this case
        "home2": {"mcc": "{P3}", "mnc": "93"}, "home3": {"mcc": "{P3}", "mnc": "093"}}
PDU = {
    "full": {"chargingId": 7, "pduSessionInformation": {"pduSessionID": 1, "dnnId": "internet",
             "networkSlicingInfo": {"sNSSAI": {"sst": 1, "sd": "010203"}}}},
    "no_info": {"chargingId": 7},
    "no_slice": {"chargingId": 7, "pduSessionInformation": {"pduSessionID": 1, "dnnId": "internet"}},
    "no_snssai": {"chargingId": 7, "pduSessionInformation": {"pduSessionID": 1, "dnnId": "internet", "networkSlicingInfo": {}}},
}


def good_create(supi, notify=True):
    b = dict(subscriberIdentifier=supi, nfConsumerIdentification=dict(nFName="smf", nodeFunctionality="SMF"),
             invocationSequenceNumber=1, notifyUri="{SINK}/n", chargingId=3)
    if not notify:
        del b["notifyUri"]
    return b


def usage(kind, bulk="none"):
    if kind == "none":
        return None
    c = dict(quotaManagementIndicator="ONLINE_CHARGING", totalVolume=0, localSequenceNumber=1)
    e = dict(ratingGroup=1, usedUnitContainer=[c])
    if bulk == "many":
        e["usedUnitContainer"] = [c] + [dict(c, localSequenceNumber=2 + i) for i in range(1300)]
    if kind == "online_req":
        e["requestedUnit"] = dict(totalVolume=10)
    if kind == "offline":
        c["quotaManagementIndicator"] = "OFFLINE_CHARGING"
    return [e]


def control(b, ctl):
    """Control members of the probed request: retransmission indicator, invocation sequence number 0 / absent."""
    if ctl.startswith("retx"):
        b["retransmissionIndicator"] = True
    if ctl.endswith("0"):
        b["invocationSequenceNumber"] = 0
    if ctl.endswith("abs"):
        del b["invocationSequenceNumber"]
    if ctl in ("emptyarr", "nulls"):
        v = [] if ctl == "emptyarr" else None
        b.setdefault("triggers", v)
        if ctl == "nulls":
            b.setdefault("userInformation", None)
            b.setdefault("notifyUri" if "notifyUri" not in b else "roamingQBCInformation", None)
        for e in b.get("multipleUnitUsage") or []:
            e.setdefault("multihomedPDUAddress", None) if ctl == "nulls" else None
            for c in e.get("usedUnitContainer") or []:
                c["eventTimeStamps"] = v
                c["triggers"] = v
                if ctl == "nulls":
                    c["triggerTimestamp"] = None
                    c["pDUContainerInformation"] = None


TRIG = {"partial": [dict(triggerType="VOLUME_LIMIT", triggerCategory="IMMEDIATE_REPORT")],
        "final": [dict(triggerType="FINAL", triggerCategory="IMMEDIATE_REPORT")]}


def to_case(hist, bid):
    h = hist[0]
    s = h["shape"]
    supi = SUPI[s["supi"]]
    reqs = []
    if s["prior"] == "evcreated":
        # event based charging first (one-time event, answered at once), then a session of the same subscriber
        eb = good_create(supi, s.get("notify", "present") == "present")
        eb["oneTimeEvent"] = True
        eb["oneTimeEventType"] = "IEC"
        reqs.append(dict(role="prior", method="POST", path="/chargingdata", body=json.dumps(eb)))
    if s["prior"] in ("created", "debit", "nearfull", "evcreated", "createdpdu"):
        cb = good_create(supi, s.get("notify", "present") == "present")
        if s["prior"] == "createdpdu":
            cb["pDUSessionChargingInformation"] = PDU["full"]
        if s["prior"] == "nearfull":
            # the session's record is within a few octets of the 65 535-octet limit: the probed update rolls it over
            cb["serviceSpecificationInfo"] = "x" * 65380
        reqs.append(dict(role="prior", method="POST", path="/chargingdata", body=json.dumps(cb)))
    if s["prior"] == "debit":
        b = dict(subscriberIdentifier=supi, invocationSequenceNumber=2, multipleUnitUsage=usage("online_req"), triggers=TRIG["final"])
        reqs.append(dict(role="prior", method="POST", path="/chargingdata/{REF}/update", body=json.dumps(b)))
    ep = s["ep"]
    if ep == "create":
        b = good_create(supi, s.get("notify", "present") == "present")
        if s["nfci"] == "absent":
            del b["nfConsumerIdentification"]
        elif s["plmn"] != "absent":
            b["nfConsumerIdentification"]["nFPLMNID"] = PLMN[s["plmn"]]
        if s["pdu"] != "absent":
            b["pDUSessionChargingInformation"] = PDU[s["pdu"]]
        u = usage(s["usage"], s.get("bulk", "none"))
        if u:
            b["multipleUnitUsage"] = u
        control(b, s.get("ctl", "plain"))
        reqs.append(dict(role="probe", method="POST", path="/chargingdata", body=json.dumps(b)))
    elif ep in ("update", "release"):
        b = dict(subscriberIdentifier=supi, invocationSequenceNumber=5)
        u = usage(s["usage"], s.get("bulk", "none"))
        if u:
            b["multipleUnitUsage"] = u
        if s["trig"] != "none":
            b["triggers"] = TRIG[s["trig"]]
        control(b, s.get("ctl", "plain"))
        reqs.append(dict(role="probe", method="POST", path="/chargingdata/{REF}/" + ep, body=json.dumps(b)))
    else:
        rp = {"u_1": supi.replace("/", "%2F") + "_1", "u": supi.replace("/", "%2F"), "u_x": supi.replace("/", "%2F") + "_x",
              "_": "_", "u_1_2": supi.replace("/", "%2F") + "_1_2"}[s["rparam"]]
        reqs.append(dict(role="probe", method="PUT", path="/recharging/" + rp, body=""))
    # follow-up: a well-formed request for the same subscriber
    if ep in ("update", "recharge") and s["prior"] in ("created", "debit", "nearfull", "evcreated", "createdpdu"):
        b = dict(subscriberIdentifier=supi, invocationSequenceNumber=9, multipleUnitUsage=usage("online_req"))
        reqs.append(dict(role="follow", method="POST", path="/chargingdata/{REF}/update", body=json.dumps(b)))
    reqs.append(dict(role="follow", method="POST", path="/chargingdata", body=json.dumps(good_create(supi))))
    return dict(id=bid, shape=h, accts=[], supis=[supi], reqs=reqs, steps=reqs)


def cfg(tier):
    c = dict(
        Eps=S("create", "update", "release", "recharge"),
        Supis=S("imsi", "nodash", "imsiempty", "nai", "slash") if tier == "quick" else S("imsi", "nodash", "imsiempty", "nai", "slash", "long"),
        Nfcis=S("present", "absent"), Plmns=S("absent", "ok", "ok3", "shortmcc", "shortmnc", "emptymnc", "multibyte", "mcc2mnc3", "mcc4mnc1", "mcc5", "mnc5", "mcc4mnc2", "home2", "home3"),
        Pdus=S("absent", "full", "no_info", "no_slice", "no_snssai"),
        Usages=S("none", "online_req", "online_noreq", "offline"), Trigs=S("none", "partial", "final"),
        Rparams=S("u_1", "u", "u_x", "_", "u_1_2"), Priors=S("fresh", "created", "debit", "nearfull", "evcreated", "createdpdu"), Notifys=S("present", "absent"),
        Ctls=S("plain", "retx", "retx0", "retxabs", "isn0", "isnabs", "emptyarr", "nulls"), Bulks=S("none", "many"),
        EmitOneIn=1)
    return c, 100000


def check(pid, tier, replay=None):
    consts, n_beh = cfg(tier)
    consts["DEV_NilDerefs"] = S(*DEV["DEV_NilDerefs"])
    consts["DEV_CreateNoDefer"] = DEV["DEV_CreateNoDefer"]
    return pipe.standard_check(
        pid, tier, family="http", base_module="Http", consts=consts,
        invariants=["InvNeverServerError", "InvFollowUpAnswered"], n_beh=n_beh,
        to_behaviour=to_case, harness_mode="http", trace_module="HttpTrace", trace_consts={}, clauses=None,
        replay=replay, chunk=60,
        explanation="TLC enumerated every relevant request shape (endpoint x SUPI form x presence of optional/mandatory "
                    "members x PLMN/PDU variants x usage/trigger x recharge parameter x prior state) of Http and checked on "
                    "the model that no shape crashes a handler or leaves the subscriber locked; EVERY shape was then sent "
                    "through the real gin router, followed by a well-formed request for the same subscriber, and judged",
        assumptions=["in-process router (httptest) instead of a TCP listener", "8 s deadline per request",
                     "fake in-memory MongoDB; real rating/account servers"])
