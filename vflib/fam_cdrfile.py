"""C14 / C15: CDR file codec (spec/CdrFile.tla, CdrFileMC.tla, CdrFileTrace.tla)."""
import itertools

from . import core, pipe
from .pipe import S


def shapes(tier):
    rels = [0, 7, 6]
    lens = [0, 1, 255, 65535] if tier == "thorough" else [0, 1, 255, 65535]
    out = [()]
    one = [(r, n) for r in rels for n in lens]
    out += [(x,) for x in one]
    pairs = [((7, 1), (0, 255)), ((0, 65535), (7, 0)), ((6, 1), (6, 1)), ((7, 65535), (7, 65535)), ((0, 0), (0, 0))]
    out += pairs
    out += [((7, 255), (0, 1), (7, 0)), ((0, 1), (6, 65535), (0, 2))]
    out += [tuple([(0, 65535)] * 17 + [(7, 1)])]        # more than 1 MiB in one file (size is a product of count and length)
    if tier == "thorough":
        out += [(a, b) for a in one for b in one]
    return "{" + ", ".join("<<" + ", ".join("<<%d, %d>>" % x for x in sh) + ">>" for sh in out) + "}"


def to_case(hist, bid):
    # how the caller holds the octet strings, and what the encoder went through before, are dimensions of the replay (the
    # layout of the file written does not depend on them): chosen from the case's id
    import zlib
    z = zlib.crc32(bid.encode())
    return dict(id=bid, s=hist[0], steps=[1], mem="blob" if z % 3 == 0 else "", pre="failed" if (z // 3) % 4 == 0 else "")


CL = {"C14": {("C14", "decoding_fails"), ("C14", "round_trip")},
      "C15": {("C15", "encoding_fails"), ("C15", "bytes_follow_layout"), ("C15", "independent_reader_recovers")}}


def check(pid, tier, replay=None):
    if tier == "quick":
        consts = dict(Rels=S(0, 6, 7), FieldClasses=S("zero", "one", "max"), BlobLens=S(0, 1, 256), RecShapes=shapes(tier), EmitOneIn=3)
        n = 700
    else:
        # (the 16-bit top of the blob lengths lives in the bigblob slice: 65 535 explicit octets per structure make the
        # exhaustive enumeration of this product crawl and need > 16 GB)
        consts = dict(Rels=S(0, 5, 6, 7), FieldClasses=S("zero", "one", "max"), BlobLens=S(0, 1, 2, 255, 256), RecShapes=shapes(tier), EmitOneIn=25)
        n = 8000
    # second slice: routeing filter / private extension at the top of their 16-bit length fields
    big = dict(Rels=S(0, 7), FieldClasses=S("one"), BlobLens=S(0, 1, 2, 65534, 65535) if tier == "quick" else S(0, 1, 2, 32768, 65533, 65534, 65535),   # incl. pairs that sum to 65536
               RecShapes="{<<>>, <<<<7, 1>>>>, <<<<0, 255>>, <<7, 0>>>>}", EmitOneIn=1)
    # third slice: the two header timestamps of a class of their own (all-zero / maximal next to the other fields'
    # class), for files with and without records
    stamps = dict(Rels=S(0, 7), FieldClasses=S("one_zlast", "one_zopen", "max_zlast", "max_zopen", "zero_mlast", "zero_mopen"),
                  BlobLens=S(0, 1), RecShapes="{<<>>, <<<<0, 1>>>>, <<<<7, 0>>, <<0, 3>>>>}", EmitOneIn=1)
    # fourth slice: one record of every payload length 0..300 (thorough: ..1100) under both forms of the record header
    top = 300 if tier == "quick" else 1100
    paylens = dict(Rels=S(7), FieldClasses=S("one"), BlobLens=S(0),
                   RecShapes="{" + ", ".join("<<<<%d, %d>>>>" % (r, k) for r in (0, 7) for k in range(0, top + 1)) + "}", EmitOneIn=1)
    slices = [dict(name="main", consts=consts, n_beh=n), dict(name="bigblob", consts=big, n_beh=None),
              dict(name="stamps", consts=stamps, n_beh=None), dict(name="paylens", consts=paylens, n_beh=None)]
    return pipe.standard_check(
        pid, tier, family="cdrfile", base_module="CdrFileMC", consts=consts, slices=slices,
        invariants=["InvWellFormed", "InvSpecRoundTrip"], n_beh=n,
        to_behaviour=to_case, harness_mode="cdrfile", trace_module="CdrFileTrace", trace_consts={}, clauses=CL[pid],
        replay=replay, chunk=60,
        explanation="TLC enumerated well-formed CDR file structures (release identifiers x extension presence x field value "
                    "classes x routeing-filter/private-extension lengths x record shapes) and checked on the specification that "
                    "the independent TS 32.297 reader inverts the layout; a seeded sample was written by the real "
                    "CDRFile.Encoding and read by the real Decoding; TLC compared the written octets with FileBytes(s), parsed "
                    "them with ParseFile, and compared the decoded structure with s",
        assumptions=["payloads > 300 octets are compared as run tokens found by plain substring search",
                     "the harness's conversion between JSON and cdrFile structs is trusted"])
