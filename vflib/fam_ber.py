"""C04 / C05 / C16: the BER codec (spec/Ber.tla, BerMC.tla, BerTrace.tla)."""
import os
import re

from . import core, pipe
from .pipe import S, limbs, unlimbs


def big(n):
    return "[neg |-> %s, mag |-> <<%s>>]" % ("TRUE" if n < 0 else "FALSE", ", ".join(str(x) for x in limbs(abs(n))))


def schema_types():
    d = os.path.join(core.REPO, "cdr", "cdrType")
    names = []
    for f in sorted(os.listdir(d)):
        if f.endswith(".go") and not f.endswith("_test.go"):
            with open(os.path.join(d, f), errors="replace") as fh:
                names += re.findall(r"^type\s+(\w+)\s+struct\b", fh.read(), re.M)
    return sorted(set(n for n in names if n[0].isupper()))


ALPHA = [0x00, 0x01, 0x02, 0x03, 0x04, 0x05, 0x0A, 0x0C, 0x10, 0x16, 0x1F, 0x20, 0x30, 0x31, 0x7F, 0x80, 0x81, 0x82, 0x83,
         0x84, 0x9F, 0xA0, 0xBF, 0xFF]


def int_vals(tier):
    vs = set()
    for v in [0, 1, 2, 126, 127, 128, 129, 254, 255, 256, 257, 32766, 32767, 32768, 32769, 65535, 65536, 8388607, 8388608, 8388609]:
        vs |= {v, -v}
    for k in range(24, 63):
        for d in (-1, 0, 1):
            vs |= {(1 << k) + d, -((1 << k) + d)}
    vs |= {2**63 - 1, -2**63, -2**63 + 1}
    if tier == "thorough":
        vs |= set(range(-32769, 32770))                      # exhaustive: all integers of <= 2 content octets
        vs |= set(range(-8388608, 8388608, 4099))            # 3-octet band: strided (2^24 values are out of budget)
    return sorted(vs)


def cfg(pid, tier):
    quick = tier == "quick"
    c = dict(
        IntVals="{" + ", ".join(big(v) for v in int_vals(tier)) + "}",
        Lens=S(0, 1, 127, 128, 255, 256, 65535, 65536), BitLens="(0..17) \\cup {24, 1023, 1024}",
        Kinds1=S("int", "goint", "int32", "bool", "octets", "utf8", "ia5", "graphic", "enum", "bits", "null", "wrapint", "wraplist", "struct2",
                 "choice2", "sliceint", "slicestruct", "sliceoctets", "oid"),
        Tags1=S(0, 30, 31, 127, 128, 16383, 16384, 2097152),
        Kinds2=S("int", "octets", "bits", "struct2", "choice2", "sliceint") if quick else
        S("int", "bool", "octets", "utf8", "bits", "null", "struct2", "choice2", "sliceint", "slicestruct"),
        TagPairs=S((0, 1), (30, 31), (127, 128), (16383, 16384)) if not quick else S((0, 1), (30, 31), (127, 128)),
        Leafs=S("small", "boundary"), Seeds=S(1, 2) if quick else S(1, 2, 3, 4, 5, 6),
        Strategies=S("none", "all", "rand", "only", "holes", "emptylists", "defaults", "deepest"),
        FuzzFirst="{" + ", ".join(str(a) for a in ALPHA) + "}" if pid == "C16" else "{}",
        EmitOneIn=1)
    return c


def expander(pid, tier, types):
    quick = tier == "quick"
    seed0 = core.seed() * 1000

    def to_cases(hist, bid):
        c = hist[0]
        out = []
        mode = c["mode"]
        mut = (30 if quick else 150) if pid == "C16" else 0
        if mode == "prim":
            if pid == "C16":
                return []
            v = str(unlimbs(c["val"]["mag"]) * (-1 if c["val"]["neg"] else 1)) if "val" in c else str(c["n"])
            out.append(dict(id=bid, mode="prim", type=c["type"], val=v, params="", seed=seed0))
            import zlib
            if pid == "C04" and c["type"] in ("int", "bits", "octets", "bool") and zlib.crc32(v.encode()) % 3 == 0:
                for j, prm in enumerate(["tagNum:3", "tagNum:3,explicit", "tagNum:31,explicit", "tagNum:16384,explicit"]):
                    out.append(dict(id="%s.p%d" % (bid, j), mode="prim", type=c["type"], val=v, params=prm, seed=seed0))
            if pid == "C04" and c["type"] in ("octets", "utf8") and "n" in c and c["n"] >= 255:
                # the longest headers: a tag number at the top of the range on an element whose length needs 2-3 octets
                for j, prm in enumerate(["tagNum:2097152", "tagNum:2097152,explicit", "tagNum:268435455", "tagNum:16383,explicit"]):
                    out.append(dict(id="%s.h%d" % (bid, j), mode="prim", type=c["type"], val=v, params=prm, seed=seed0))
        elif mode == "schema":
            if quick and c["present"] in ("only", "defaults", "deepest") and (c["leaf"] != "small" or c["seed"] != 1):
                return []      # quick: each-single-optional-present, members-at-their-DEFAULT, deepest-path once per type
            onlys = [0] if c["present"] != "only" else list(range(0, 12))
            for i, t in enumerate(types):
                for k in onlys:
                    if pid == "C16" and c["present"] == "only":
                        continue
                    params = "explicit,choice" if t == "CHFRecord" and c["seed"] % 2 == 0 else ""
                    out.append(dict(id="%s.%s.%d" % (bid, t, k), mode="schema", type=t, leaf=c["leaf"], present=c["present"], only=k,
                                    seed=seed0 + c["seed"] * 7919 + i * 13 + k, params=params, n=mut))
        elif mode == "shape":
            if pid == "C16" and len(c["members"]) > 1 and len(c["members"]) != 3:
                return []
            if pid != "C04" and any(m["extra"] == "explicit" for m in c["members"]):
                return []      # the decoder has no notion of field-level EXPLICIT: exercised on the encoder only
            out.append(dict(id=bid, mode="shape", type="shape", top=c["top"], members=c["members"], leaf=c["leaf"],
                            seed=seed0 + c["seed"], params="", n=mut))
        elif mode == "foreign":
            out.append(dict(id=bid, mode="foreign", type=c["kind"], bytes=c["bytes"], n=mut, params="", seed=seed0))
        elif mode == "fuzz":
            out.append(dict(id=bid, mode="fuzz", type="fuzz", only=c["only"], n=2 if quick else 3, params="", seed=seed0))
        return out
    return to_cases


CL = {
    "C04": {("C04", "never_panics"), ("C04", "well_formed"), ("C04", "equals_reference"), ("C04", "encodable_value_rejected"),
            ("C04", "earlier_output_intact"), ("C04", "concurrent_calls_agree")},
    "C05": {("C05", "decode_never_panics"), ("C05", "decode_succeeds"), ("C05", "round_trip"), ("C05", "unsupported_is_error")},
    "C16": {("C16", "never_panics"), ("C16", "malformed_is_error")},
}


def seed_of(j):
    return core.seed() * 1000 + 77 + j


def check(pid, tier, replay=None):
    import json
    import random
    v = core.Verdict(pid, tier)
    sc = core.Scratch(pid)
    builder = pipe.Builder(sc)
    consts = cfg(pid, tier)
    types = schema_types()
    mc = dict(generated=0, distinct=0, violated=None)
    if replay is None:
        mc, hists, cex = pipe.explore(sc, "BerMC", consts, ["InvReference"], tier, notes=v.notes)
        if mc["violated"]:
            raise core.MachineryError("the reference encoder of Ber.tla fails its own well-formedness check (%s)" % mc["outfile"])
        exp = expander(pid, tier, types)
        behs = []
        for i, h in enumerate(hists):
            behs += exp(h, "%s-%d" % (pid, i))
        rnd = random.Random(core.seed())
        cap = (5500 if tier == "quick" else 60000)
        if pid == "C16" and tier == "quick":
            cap = 1500
        if len(behs) > cap:
            keep = lambda b: (b["mode"] in ("prim", "fuzz", "foreign") or b.get("present") in ("only", "defaults", "deepest")   # noqa: E731  systematic cases
                              or (b.get("present") in ("holes", "emptylists") and b.get("leaf") == "small" and (b.get("seed", 0) - core.seed() * 1000) // 7919 == 1)   # once per type (found by the regression over older changes: their detection had come to depend on the random rest)
                              or any(m["tag"] < 0 or m["kind"] in ("strplain", "slicestr") for m in b.get("members") or [])
                              or len(b.get("members") or []) == 3)
            prim = [b for b in behs if keep(b)]
            rest = [b for b in behs if not keep(b)]
            rnd.shuffle(rest)
            behs = prim + rest[: max(0, cap - len(prim))]
        behs.append(dict(id="%s-types" % pid, mode="types", type="", params="", seed=0))
        if pid in ("C04", "C05"):
            # every leaf of the schema embedded in the top-level record (one value per way down from CHFRecord), and in the
            # record body
            for j, (tn, leaf) in enumerate([("CHFRecord", "small"), ("ChargingRecord", "small")] + ([("CHFRecord", "boundary")] if tier != "quick" else [])):
                for k in range(16):
                    behs.insert((k * 331 + j * 17) % max(1, len(behs)), dict(id="%s-paths%d.%d" % (pid, j, k), mode="schema", type=tn, leaf=leaf, present="paths", only=k, seed=seed_of(j), params="", n=0))
        if pid in ("C04", "C05"):
            # the same values marshalled and decoded from many tasks at once, in fresh processes
            behs.append(dict(id="%s-hot" % pid, mode="hot", type="", params="", seed=core.seed(), n=3 if tier == "quick" else 20))
        if pid == "C16":
            # size-only inputs (1.5 M repeated / 1.2 M nested constructed headers), each decode in a child process
            behs.append(dict(id="C16-deep", mode="deep", type="", params="", seed=0, n=1500000))
            behs.append(dict(id="C16-trailing", mode="trailing", type="", params="", seed=0))
            behs.append(dict(id="C16-sizes", mode="sizes", type="", params="", seed=0))
            # concurrent decoding from the first moment of a process (fresh child processes)
            behs.append(dict(id="C16-cold", mode="cold", type="", params="", seed=core.seed(), n=8 if tier == "quick" else 40))
    else:
        with open(replay) as f:
            behs = [json.load(f)["behaviour"]]
    vfh = builder.get()
    trace, nlines = pipe.run_harness(sc, vfh, "ber", behs, chunk=max(20, len(behs) // 24 + 1))
    res = pipe.judge_parallel(sc, "BerTrace", {}, trace, nlines, parts=8, heap="6g", timeout=7200)
    bymap = {b["id"]: b for b in behs}
    mine = [x for x in res["viol"] if (x["prop"], x["clause"]) in CL[pid]]
    for x in sorted(mine, key=lambda x: (str(x["trace"]), x["step"])):
        lines = [t for t in pipe.trace_lines(trace, x["trace"]) if t.get("seq") == x["step"]]
        v.add(x, dict(family="ber", property=pid, behaviour=bymap.get(x["trace"]), violation=x, trace=lines[:1]))
    if res.get("div"):
        v.notes.append("diagnostics (no verdict): %d; e.g. %s" % (len(res["div"]), json.dumps(sorted(res["div"], key=lambda d: (str(d["trace"]), d["step"]))[:3])))
    nsch = len(set(b["type"] for b in behs if b["mode"] == "schema"))
    cov = dict(states=max(mc["distinct"], 1), transitions=max(mc["generated"], 1), traces_validated_against_impl=len(behs),
               evaluations=nlines, distinct_nontrivial=len(behs), schema_types_covered=nsch, schema_types_total=len(types),
               rule="cases enumerated by BerMC (primitive boundary values; fill strategy x every cdrType struct type; generated "
                    "struct/choice shapes over tag numbers and member kinds; for C16 mutations of valid encodings and all short "
                    "octet strings over a 24-symbol alphabet); every case executed on the real codec and judged by BerTrace",
               model_invariants=["InvReference"], clauses=sorted("%s.%s" % c for c in CL[pid]), exhaustive=False,
               constants={k: (str(x)[:300]) for k, x in consts.items()},
               samples=[behs[i] for i in range(0, len(behs), max(1, len(behs) // 3))][:3])
    return v.finish("model_checking", cov, [
        "Ber.tla (reference encoder, well-formedness, must-error classes) is written from X.690 and shares no code with cdr/asn",
        "the harness's reflection walk (value tree extraction, value filling) is trusted",
        "octet/character strings >= 400 octets are compared as run tokens found by plain search",
    ])
