"""Generic model -> behaviours -> real code -> trace judge pipeline shared by the families."""
import json
import os
import random
import threading
import time

from . import core


def S(*xs):
    """TLA+ set literal of strings / ints / tuples."""
    def one(x):
        if isinstance(x, str):
            return '"%s"' % x
        if isinstance(x, (tuple, list)):
            return "<<" + ", ".join(one(y) for y in x) + ">>"
        return str(x)
    return "{" + ", ".join(one(x) for x in xs) + "}"


def limbs(n):
    out = []
    while n:
        out.append(n % 32768)
        n //= 32768
    return out


def unlimbs(l):
    n = 0
    for x in reversed(l):
        n = n * 32768 + x
    return n


def tla_limbs(n):
    return "<<" + ", ".join(str(x) for x in limbs(n)) + ">>"


def wrapper_module(base, consts, name="MCrun"):
    """Wrapper module: non-scalar constants become definitions substituted with `<-`."""
    lines = ["---- MODULE %s ----" % name, "EXTENDS " + base]
    over, plain = {}, {}
    for k, v in consts.items():
        if isinstance(v, bool):
            plain[k] = core.tla_bool(v)
        elif isinstance(v, int):
            plain[k] = str(v)
        else:
            lines.append("c_%s == %s" % (k, v))
            over[k] = "c_" + k
    lines.append("====")
    return "\n".join(lines) + "\n", plain, over


def drop_prefixes(behs):
    """Drop behaviours whose step list is a proper prefix of another one (their transitions come for free)."""
    keyed = [(tuple(json.dumps(x, sort_keys=True) for x in h), h) for h in behs]
    keyed.sort(key=lambda kh: -len(kh[0]))
    seen, out = set(), []
    for k, h in keyed:
        if k in seen:
            continue
        out.append(h)
        for i in range(1, len(k) + 1):
            seen.add(k[:i])
    return out


def sig_of(h):
    """Structural signature of a behaviour: the model-computed `sig` of every step (falls back to the action)."""
    return tuple((x.get("sig") or json.dumps({k: v for k, v in x.items() if k in ("a", "rg", "amt", "n")}, sort_keys=True))
                 if isinstance(x, dict) else str(x) for x in h[1:])


def grams(h, k):
    s = ("^",) + sig_of(h)
    return {s[i:i + k] for i in range(len(s) - k + 1)}


def select(behs, n, rnd):
    """Seeded choice of behaviours to replay, directed by the structural signatures the model computes for
    every step (mode, request present, usage present, money short, kind of grant, direction of account and
    reservation change, records added ...): a lazy greedy cover of the signature 2-grams (pairs of consecutive
    step signatures), then of the 3-grams, then one behaviour per still unseen signature sequence.
    n = None: every candidate (minus those that are prefixes of others)."""
    import heapq
    behs = drop_prefixes(behs)
    if n is None or len(behs) <= n:
        return behs
    rnd.shuffle(behs)
    pick, taken = [], set()
    for k in (2, 3):
        gs = [grams(h, k) for h in behs]
        cov = set()
        heap = [(-len(g), i) for i, g in enumerate(gs) if i not in taken]
        heapq.heapify(heap)
        while heap and len(pick) < n:
            neg, i = heapq.heappop(heap)
            gain = len(gs[i] - cov)
            if gain == 0:
                continue
            if heap and gain < -heap[0][0]:
                heapq.heappush(heap, (-gain, i))      # stale score: re-queue with the current gain
                continue
            cov |= gs[i]
            taken.add(i)
            pick.append(behs[i])
    seen = {sig_of(h) for h in pick}
    for i, h in enumerate(behs):
        if len(pick) >= n:
            break
        if i not in taken and sig_of(h) not in seen:
            seen.add(sig_of(h))
            taken.add(i)
            pick.append(h)
    for i, h in enumerate(behs):
        if len(pick) >= n:
            break
        if i not in taken:
            pick.append(h)
    return pick


def gram_cover(universe, picked, k):
    u, p = set(), set()
    for h in universe:
        u |= grams(h, k)
    for h in picked:
        p |= grams(h, k)
    return len(p & u), len(u)


def explore(sc, base_module, consts, invariants, tier, view="View", emit="EmitBehaviour", notes=None, workers=None,
            properties=(), tag="VF-BEH"):
    """Model-check base_module with TLC; return (stats, emitted behaviours, counterexample behaviours)."""
    mod, plain, over = wrapper_module(base_module, consts)
    workers = workers or min(8, core.NCPU)
    to = 7200 if tier == "thorough" else 900
    ct = core.cfg_text("Spec", plain, over, invariants=invariants, view=view,
                       action_constraints=[emit] if emit else [], properties=properties)
    mc = core.tlc(sc, "MCrun", ct, extra_modules={"MCrun.tla": mod}, workers=workers, seed_=core.seed(), timeout=to)
    cex = []
    if mc["violated"]:
        # A counterexample on the model alone is not a verdict (DESIGN 0.4): it is replayed into the real
        # code together with the generated behaviours; only what the code does is judged.
        cex = list(core.tagged_lines(mc["outfile"], "VF-CEX"))[:3]
        if notes is not None:
            notes.append("the specification (as-is model) admits a violation of %s; counterexample replayed into "
                         "the implementation" % mc["violated"])
        bad = mc["violated"]
        ct = core.cfg_text("Spec", plain, over, invariants=[], view=view, action_constraints=[emit] if emit else [])
        mc = core.tlc(sc, "MCrun", ct, extra_modules={"MCrun.tla": mod}, workers=workers, seed_=core.seed(), timeout=to)
        mc["violated"] = bad
    hists = list(core.tagged_lines(mc["outfile"], tag)) if emit else []
    core.log("model explored: %d states, %d %s lines, %.1fs" % (mc["distinct"], len(hists), tag, mc["wall"]))
    return mc, hists, cex


def run_harness(sc, vfh, mode, behs, chunk=40, nworkers=None, timeout=3600, extra_args=()):
    """Execute behaviours on the real code in parallel worker processes; return (trace path, #lines)."""
    nworkers = nworkers or min(12, core.NCPU)
    wd = sc.path("run%d" % int(time.time() * 1000 % 1e9))
    os.makedirs(wd)
    jobs = []
    for i in range(0, len(behs), chunk):
        inp = os.path.join(wd, "b%d.json" % i)
        with open(inp, "w") as f:
            json.dump(behs[i:i + chunk], f)
        jobs.append((inp, os.path.join(wd, "t%d.ndjson" % i)))
    cmds = [[vfh, mode, "%d%03d" % (core.slot(), j), inp, outp] + list(extra_args)
            for j, (inp, outp) in enumerate(jobs)]
    env_tmp = sc.path("tmp")
    os.makedirs(env_tmp, exist_ok=True)
    os.environ["VF_TMP"] = env_tmp
    res = core.run_parallel(cmds, nworkers, timeout=timeout, errdir=wd)
    for (rc, err), c in zip(res, cmds):
        if rc != 0:
            raise core.MachineryError("harness worker failed rc=%s: %s\n%s" % (rc, " ".join(c), err))
    core.log("harness done: %d jobs" % len(jobs))
    allp = os.path.join(wd, "all.ndjson")
    nlines = 0
    with open(allp, "w") as out:
        for _, outp in jobs:
            with open(outp) as f:
                for line in f:
                    out.write(line)
                    nlines += 1
    return allp, nlines


def judge(sc, module, consts, trace_path, nlines, heap="12g", timeout=3600):
    consts = dict(consts)
    consts["TraceFile"] = '"trace.ndjson"'
    r = core.tlc(sc, module, core.cfg_text("TSpec", consts), workers=1, timeout=timeout,
                 files={"trace.ndjson": trace_path}, heap=heap)
    out = list(core.tagged_lines(r["outfile"], "VF-RESULT"))
    if len(out) != 1:
        raise core.MachineryError("judge produced no result line:\n" + r["tail"][-3000:])
    res = out[0]
    core.log("judge %s: %d lines in %.1fs" % (module, nlines, r["wall"]))
    if res["consumed"] != nlines:
        raise core.MachineryError("judge consumed %d of %d trace lines" % (res["consumed"], nlines))
    return res


def judge_parallel(sc, module, consts, trace_path, nlines, parts=8, heap="6g", timeout=3600, boundary=None):
    """Judge a trace whose lines (or, with `boundary`, whose groups of lines starting at a line that contains
    `boundary`) are independent of each other with several TLC processes at once."""
    import concurrent.futures
    if nlines < 400:
        return judge(sc, module, consts, trace_path, nlines, heap=heap, timeout=timeout)
    parts = max(1, min(parts, core.NCPU // 2))
    with open(trace_path) as f:
        lines = f.readlines()
    # a trace is one TLC behaviour: keep every part well below TLC's limit on the length of a behaviour (the thorough tier of
    # C04 ended with "behaviors of length up to 65535 states" at 41 364 lines); more parts than workers run in turn
    per = min((len(lines) + parts - 1) // parts, 20000)
    cuts = [0]
    while cuts[-1] < len(lines):
        j = min(cuts[-1] + per, len(lines))
        while boundary and j < len(lines) and boundary not in lines[j]:
            j += 1
        cuts.append(j)
    chunks = []
    for k in range(len(cuts) - 1):
        cp = trace_path + ".part%d" % k
        with open(cp, "w") as f:
            f.writelines(lines[cuts[k]:cuts[k + 1]])
        chunks.append((cp, cuts[k + 1] - cuts[k]))
    # allocate the scratch TLC directories up front (Scratch is not thread-safe)
    with concurrent.futures.ThreadPoolExecutor(max_workers=min(len(chunks), parts)) as ex:
        futs = [ex.submit(judge, sc, module, consts, cp, n, heap, timeout) for cp, n in chunks]
        results = [f.result() for f in futs]
    out = dict(consumed=sum(r["consumed"] for r in results), viol=[], div=[])
    for r in results:
        out["viol"] += r["viol"]
        out["div"] += r.get("div", [])
    return out


def trace_lines(trace_path, tid):
    out = []
    needle = '"trace":"%s"' % tid
    with open(trace_path) as f:
        for line in f:
            if needle in line:
                out.append(json.loads(line))
    return out


class Builder:
    """Build the harness in a background thread while TLC explores the model."""

    def __init__(self, sc, race=False):
        self.res = {}

        def go():
            try:
                self.res["vfh"] = sc.build(race=race)
            except Exception as e:  # noqa
                self.res["err"] = e
        self.th = threading.Thread(target=go)
        self.th.start()

    def get(self):
        self.th.join()
        if "err" in self.res:
            raise self.res["err"]
        return self.res["vfh"]


def standard_check(pid, tier, *, family, base_module, consts, invariants, n_beh, to_behaviour, harness_mode,
                   trace_module, trace_consts, clauses, extra=(), replay=None, level="model_checking",
                   assumptions=(), chunk=40, explanation="", extra_phase=None, slices=None, judge_boundary=None,
                   slice_behaviour=None):
    """The common shape of a model-based check; returns the process exit code."""
    v = core.Verdict(pid, tier)
    sc = core.Scratch(pid)
    rnd = random.Random(core.seed())
    builder = Builder(sc)
    mc = dict(generated=0, distinct=0, violated=None)
    slice_cov = []
    if replay is None:
        # one or more bounded configurations ("slices") of the same model, explored side by side
        sl = slices or [dict(name="main", consts=consts, n_beh=n_beh)]
        import concurrent.futures
        w = max(2, min(8, core.NCPU // len(sl)))
        with concurrent.futures.ThreadPoolExecutor(max_workers=len(sl)) as ex:
            futs = [ex.submit(explore, sc, base_module, x["consts"], invariants, tier, notes=v.notes, workers=w,
                              emit="EmitEdge" if x.get("graph") else "EmitBehaviour",
                              tag="VF-EDGE" if x.get("graph") else "VF-BEH", properties=x.get("properties", ())) for x in sl]
            outs = [f.result() for f in futs]
        behs = []
        mc = dict(generated=0, distinct=0, violated=None)
        for k, (x, (m1, hists, cex)) in enumerate(zip(sl, outs)):
            emitted = len(hists)
            sc_cov = {}
            if x.get("graph"):
                from . import graph
                g = graph.Graph(hists)
                if x.get("n_beh") is None:
                    paths, sc_cov = graph.all_edges(g), dict(selection="every transition: breadth-first path + transition")
                else:
                    paths, sc_cov = graph.cover(g, x["n_beh"], rnd)
                    sc_cov["selection"] = "signature-pair cover of the state graph, then triples, then random walks"
                sc_cov["transitions_replayed"] = graph.edge_stats(g, paths)
                hists = [g.hist(i, p) for i, p in paths]
            else:
                hists = select(hists, x.get("n_beh"), rnd)
            tb = (lambda h, bid, x=x: slice_behaviour(x, h, bid)) if slice_behaviour else to_behaviour
            behs += [tb(h, "%s-%s-cex%d" % (pid, x["name"], i)) for i, h in enumerate(cex)]
            behs += [tb(h, "%s-%s-%d" % (pid, x["name"], i)) for i, h in enumerate(hists)]
            mc["generated"] += m1["generated"]
            mc["distinct"] += m1["distinct"]
            mc["violated"] = mc["violated"] or m1.get("violated")
            slice_cov.append(dict(sc_cov, name=x["name"], states=m1["distinct"], transitions=m1["generated"],
                                  emitted=emitted, replayed=len(hists),
                                  constants={a: str(b) for a, b in x["consts"].items()}))
            core.log("slice %s: %d states, %d behaviours to replay %s" % (x["name"], m1["distinct"], len(hists),
                     {k2: v2 for k2, v2 in sc_cov.items() if k2 != "selection"}))
        behs += list(extra)
    else:
        with open(replay) as f:
            behs = [json.load(f)["behaviour"]]
    vfh = builder.get()
    trace, nlines = run_harness(sc, vfh, harness_mode, behs, chunk=chunk)
    if judge_boundary:
        res = judge_parallel(sc, trace_module, trace_consts, trace, nlines, boundary=judge_boundary)
    else:
        res = judge(sc, trace_module, trace_consts, trace, nlines)
    bymap = {b["id"]: b for b in behs}
    mine = [x for x in res["viol"] if clauses is None or (x["prop"], x["clause"]) in clauses]
    for x in sorted(mine, key=lambda x: (str(x["trace"]), x["step"])):
        v.add(x, dict(family=family, property=pid, behaviour=bymap.get(x["trace"]), violation=x,
                      trace=trace_lines(trace, x["trace"])))
    ndiv = len(res.get("div", []))
    if ndiv:
        v.notes.append("divergences from the as-is model (no verdict): %d; e.g. %s" % (
            ndiv, json.dumps(sorted(res["div"], key=lambda d: (str(d["trace"]), d["step"]))[:3])))
    extra_cov = extra_phase(sc, v) if extra_phase and replay is None else {}
    steps = sum(len(b.get("steps", [])) for b in behs)
    cov = dict(extra_cov,
        states=max(mc["distinct"], 1), transitions=max(mc["generated"], 1),
        traces_validated_against_impl=len(behs), impl_steps_judged=steps, trace_lines=nlines,
        divergences=ndiv, model_invariants=list(invariants), model_invariant_violated=mc.get("violated"),
        clauses=sorted("%s.%s" % c for c in clauses) if clauses else "all", exhaustive=False,
        explanation=explanation or (
            "TLC explored the bounded %s model exhaustively (constants in 'constants'); a seeded sample of the "
            "explored transitions (behaviour = shortest path to the source state + the transition) was executed on "
            "the real code and every recorded step judged by %s" % (base_module, trace_module)),
        constants={k: str(x) for k, x in consts.items()} if not slices else "per slice",
        slices=slice_cov,
        samples=[behs[i] for i in range(min(2, len(behs)))],
    )
    return v.finish(level, cov, list(assumptions))
