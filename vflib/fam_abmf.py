"""C07: account-balance server (spec/Abmf.tla, AbmfMC.tla, AbmfTrace.tla)."""
import json
import os

from . import core, pipe
from .pipe import S, tla_limbs, unlimbs

with open(os.path.join(core.SPEC, "dev_flags.json")) as _f:
    DEV = json.load(_f)

P31, P32, P53, P63 = 2**31, 2**32, 2**53, 2**63


def mags(vals):
    return "{" + ", ".join(tla_limbs(v) for v in vals) + "}"


def cfg(tier):
    if tier == "quick":
        return dict(Keys=S("1|1", "2|1", "01|1"), UnknownKeys=S("9|1", "1|9", "1|0"),   # "01": the IMSI of "1" with leading zeros
                    Balances=mags([0, 5, P53 + 3]), Amounts=mags([0, 1, 5, 6, P32 + 1, P53 + 1, P63 - 1]),
                    MaxSteps=2, EmitOneIn=24, Forms=S("plain", "e164", "both"),
                    ActionSet=S("debit", "refund", "check", "enquiry"), TypeSet=S("initial", "update", "termination", "event")), 300
    return dict(Keys=S("1|1", "2|1", "01|1"), UnknownKeys=S("9|1", "1|9", "1|0"),
                Balances=mags([0, 1, 5, P31, P53 + 3, P63 - 1]),
                Amounts=mags([0, 1, 4, 5, 6, P31 - 1, P31 + 1, P32, P53 + 1, P63 - 2, P63 - 1]),
                MaxSteps=3, EmitOneIn=12000, Forms=S("plain", "e164", "both"),
                ActionSet=S("debit", "refund", "check", "enquiry"), TypeSet=S("initial", "update", "termination", "event")), 6000


def to_behaviour(hist, bid):
    setup = hist[0]
    return dict(id=bid, accts=setup["accts"],
                steps=[dict(key=s["key"], action=s["action"], type=s["type"], num=s["num"], sid=s["sid"], amt=s["amt"], form=s.get("form", "plain"))
                       for s in hist[1:]])


def check(pid, tier, replay=None):
    consts, n_beh = cfg(tier)
    dev = {"DEV_EchoOnlyOnDebit": DEV["DEV_EchoOnlyOnDebit"]}
    consts.update(dev)
    # second slice: a smaller configuration whose whole labelled state graph goes to the runner, which builds a
    # signature-pair cover (which branch served the request x how amount and balance compare x did the balance move)
    small = dict(consts, Keys=S("1|1", "01|1"), Balances=mags([0, 5, P53 + 3]), Amounts=mags([0, 1, 5, 6, P63 - 1]), MaxSteps=2 if tier == "quick" else 3,
                 EmitOneIn=1)
    if tier != "quick":
        small.update(Balances=mags([0, 5]), Amounts=mags([0, 5, 6, P63 - 1]), ActionSet=S("debit", "refund", "check"))
    slices = [dict(name="sample", consts=consts, n_beh=n_beh),
              dict(name="graph", consts=small, n_beh=200 if tier == "quick" else 4000, graph=True)]
    return pipe.standard_check(
        pid, tier, family="abmf", base_module="AbmfMC", consts=consts, invariants=["InvClauses"], n_beh=n_beh, slices=slices,
        to_behaviour=to_behaviour, harness_mode="abmf", trace_module="AbmfTrace",
        trace_consts={k: core.tla_bool(v) for k, v in dev.items()}, clauses=None, replay=replay,
        assumptions=["fake in-memory MongoDB stands in for mongod", "harness Diameter client (go-diameter) trusted",
                     "amounts 0..2^63-1 as Big values (base 2^15 limbs) evaluated by TLC"], chunk=12)
