#!/usr/bin/env python3
"""Development aid: summarise the judge result of a kept ber scratch dir.  usage: triage_ber.py <scratch> <prop> [maxlines]"""
import collections, glob, json, sys
D, prop = sys.argv[1], sys.argv[2]
maxl = int(sys.argv[3]) if len(sys.argv) > 3 else 14
res = None
for l in open(sorted(glob.glob(D + '/tlc*/out.txt'))[-1]):
    if l.startswith('<<"VF-RESULT"'):
        res = json.loads(json.loads('"' + l.rstrip('\n')[len('<<"VF-RESULT", "'):-3] + '"'))
cnt = collections.Counter((v['prop'], v['clause'], json.dumps(v['sit'], sort_keys=True)[:90]) for v in res['viol'] if v['prop'] == prop)
for k, n in cnt.most_common(25):
    print(n, k)
lines = {}
for l in open(glob.glob(D + '/run*/all.ndjson')[0]):
    t = json.loads(l)
    lines[(t['trace'], t['seq'])] = t
out = []
def show(n, ind=0, maxd=3):
    if n.get('absent') or len(out) > maxl:
        return
    s = ' ' * ind + n['k'] + ' tag=%s' % n['p']['tag'] + (' opt' if n['p']['optional'] else '')
    if 'v' in n: s += ' v=' + json.dumps(n['v'])[:50]
    if 'bitlen' in n: s += ' bitlen=%s' % n['bitlen']
    if 'present' in n: s += ' present=%s' % n['present']
    out.append(s)
    if ind < maxd * 2:
        for k in n.get('kids', []): show(k, ind + 2, maxd)
seen = set()
for v in res['viol']:
    if v['prop'] != prop: continue
    key = (v['clause'], v['sit'].get('mode'), v['sit'].get('kind'), v['sit'].get('cls'))
    if key in seen: continue
    seen.add(key)
    t = lines[(v['trace'], v['step'])]
    print('=====', v['clause'], json.dumps(v['sit']))
    if t['action'] == 'marshal':
        print('  enc=%r dec=%r deq=%s params=%r' % (t['enc'][:80], t['dec'][:80], t['deq'], t['params']))
        out.clear(); show(t['node']); print('\n'.join('  ' + x for x in out[:maxl]))
        print('  bytes:', ' '.join('%02x' % x if x >= 0 else str(x) for x in t['bytes'][:48]))
        if t['dec'] == '' and 'k' in t['back'] and t['back']['k'] != 'none':
            out.clear(); show(t['back']); print('  back:\n' + '\n'.join('  ' + x for x in out[:maxl]))
    else:
        print('  bytes:', ' '.join('%02x' % x for x in t['bytes'][:40]), 'target', t['target'], t['tinfo'], 'result', t['result'][:100])
