#!/bin/bash
# development aid: run every quick check with several seeds on the unchanged tree, report anything but exit 0
cd "$(dirname "$0")/.."
for s in ${SEEDS:-2 3 4}; do
  for p in C01 C02 C03 C04 C05 C06 C07 C08 C09 C10 C11 C12 C13 C14 C15 C16 C17 C18 C19 C20; do
    t0=$(date +%s)
    out=$(VERIF_SEED=$s VERIF_TIER=${TIER:-quick} ./vf check $p --tier ${TIER:-quick} 2>&1); rc=$?
    echo "seed=$s $p rc=$rc $(( $(date +%s) - t0 ))s $(echo "$out" | grep -E 'VIOLATION|KNOWN|MACHINERY' | head -2 | cut -c1-200)"
  done
done
