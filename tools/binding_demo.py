#!/usr/bin/env python3
"""Demonstration that the trace specification is bound to what was recorded (DESIGN section 3).

One small behaviour (create, grant, report + grant, FINAL report, release) is executed on the real code; its recorded
trace is accepted by spec/ChfSeqTrace.tla with no violated clause and no divergence from the model.  Then the SAME trace
is corrupted in one place at a time -- one recorded number changed, one step removed, two steps swapped -- and judged
again: every corruption must be reported (a violated clause and/or a divergence).  Exit 0 iff that is what happens.

usage: tools/binding_demo.py            (VERIF_REPO=<tree> to run against another tree than /repo)"""
import json
import os
import sys

sys.path.insert(0, os.path.dirname(os.path.dirname(os.path.abspath(__file__))))
from vflib import core, pipe, fam_seq  # noqa: E402


def main():
    sc = core.Scratch("binding")
    vfh = sc.build()
    usage = lambda req, vol: [dict(rg="1", req=req, conts=[dict(m="on", vol=vol)])]  # noqa: E731
    beh = dict(id="BIND-1", lrsn0=0, wb=False, ues=["1"], accts=[dict(u="1", rg="1", quota=40, cost="2")],
               steps=[dict(a="create", u="1", s="s1", c="a", chid=1, usage=[]),
                      dict(a="update", u="1", s="s1", usage=usage(4, 0), trig=[]),
                      dict(a="update", u="1", s="s1", usage=usage(4, 3), trig=[]),
                      dict(a="update", u="1", s="s1", usage=usage(-1, 2), trig=["final"]),
                      dict(a="release", u="1", s="s1", usage=[], trig=[])])
    trace, n = pipe.run_harness(sc, vfh, "seq", [beh], chunk=1, nworkers=1)
    consts = {k: core.tla_bool(v) for k, v in fam_seq.DEV.items()}
    with open(trace) as f:
        lines = [json.loads(x) for x in f]

    def judge(ls, name):
        p = sc.path("bind_%s.ndjson" % name)
        with open(p, "w") as f:
            for x in ls:
                f.write(json.dumps(x) + "\n")
        r = pipe.judge(sc, "ChfSeqTrace", consts, p, len(ls))
        return len(r["viol"]), len(r.get("div", [])), sorted({"%s.%s" % (v["prop"], v["clause"]) for v in r["viol"]})

    ok = True
    v, d, cl = judge(lines, "asis")
    print("as recorded           : %d violated clause(s), %d divergence(s)" % (v, d))
    ok &= (v == 0 and d == 0)
    upd = [i for i, x in enumerate(lines) if x["action"] == "update"]

    def mut_quota(ls):
        k = next(iter(ls[upd[1]]["state"]["acct"]))
        ls[upd[1]]["state"]["acct"][k]["quota"] += 1

    def mut_grant(ls):
        ls[upd[0]]["result"]["mui"][0]["granted"] += 1

    def mut_drop(ls):
        del ls[upd[1]]

    def mut_swap(ls):
        ls[upd[0]], ls[upd[1]] = ls[upd[1]], ls[upd[0]]

    def mut_cont(ls):
        ls[upd[1]]["state"]["ue"]["1"]["recs"][0]["conts"].pop()

    for name, mut in [("balance of one observed state + 1", mut_quota), ("granted units of one answer + 1", mut_grant),
                      ("one recorded step removed", mut_drop), ("two recorded steps swapped", mut_swap),
                      ("one container missing from the observed record", mut_cont)]:
        ls = json.loads(json.dumps(lines))
        mut(ls)
        v, d, cl = judge(ls, name.split()[0])
        print("%-47s: %d violated clause(s) %s, %d divergence(s)" % (name, v, cl, d))
        ok &= (v + d > 0)
    print("BINDING-DEMO", "ok" if ok else "FAILED")
    return 0 if ok else 1


if __name__ == "__main__":
    sys.exit(main())
